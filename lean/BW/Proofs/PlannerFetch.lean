/-
The planner's fetch, triple by triple, is the reference's clause match (towards C03: the planner's table
is the set of solutions).

* `tripleToRow_eq`: `tripleToRow` (the Go function's chain of guarded assignments) is the left fold of
  the reference's binding steps, for every clause whose ID alias is not named after its own object.
* `addTriples_eq`: a delivered batch contributes `filterMap fetchRow`.
* `matchClause_eq`: the reference's match = constants ∧ window ∧ not ignored ∧ binding steps, whenever
  the window contains the clause's own bounds.
* `specBind_congr`: the binding steps respect equality of triples up to anchor representation.
-/
import BW.Proofs.ClauseOrder
open BW.Model BW.Spec BW.Proofs.ClauseOrder

namespace BW.Proofs.Planner

theorem sameCell_eq (a b : Cell) : sameCell a b = cellSame a b := by
  cases a <;> cases b <;> simp [sameCell, cellSame, predSameI, predSame] <;> (rw [Bool.eq_iff_iff]; simp)

theorem bindCell_eq (acc : Option Row) (k : Bytes) (c : Cell) : bindCell acc k c = bindSame acc k c := by
  unfold bindCell bindSame
  cases acc with
  | none => rfl
  | some r =>
    simp only
    split
    · rfl
    · cases r.get k with
      | none => rfl
      | some old => simp only [sameCell_eq]

theorem bindStep_none (kv : Bytes × Option Cell) : bindStep none kv = none := by
  unfold bindStep; split
  · rfl
  · cases kv.2 <;> simp [bindSame]

theorem foldl_bindStep_none (l : List (Bytes × Option Cell)) : l.foldl bindStep none = none := by
  induction l with
  | nil => rfl
  | cons kv l ih => simp only [List.foldl_cons, bindStep_none, ih]

theorem bindStep_some (acc : Option Row) (k : Bytes) (c : Cell) : bindStep acc (k, some c) = bindSame acc k c := by
  unfold bindStep bindSame
  by_cases hk : k = []
  · cases acc <;> simp [hk]
  · simp [hk]

/-- The model's guarded binding step (anchor / TYPE / ID extraction). -/
theorem guarded_step (r : Row) (k : Bytes) (e : Option Cell) :
    (if (k ≠ [] && e.isNone) = true then (none : Option Row)
     else (if k ≠ [] then bindCell (some r) k (e.getD .null) else some r)) = bindStep (some r) (k, e) := by
  unfold bindStep
  by_cases hk : k = []
  · simp [hk]
  · cases e with
    | none => simp [hk]
    | some c => simp [hk, bindCell_eq]

theorem anchorCell_eq (opt : Bool) (p : Pred) : anchorCell opt (some p) = extract opt (anchorOf p) := by
  cases p <;> simp [anchorCell, extract, anchorOf]

theorem extract_some (o : Bool) (c : Cell) : extract o (some c) = some c := rfl
theorem extract_none (o : Bool) : extract o none = if o = true then some Cell.null else none := rfl

theorem bindSame_none (k : Bytes) (c : Cell) : bindSame none k c = none := rfl

theorem guarded_step' (r : Row) (k : Bytes) (e : Option Cell) :
    bindStep (some r) (k, e) = (if (decide (k ≠ []) && e.isNone) = true then (none : Option Row)
     else (if k ≠ [] then bindSame (some r) k (e.getD .null) else some r)) := by
  rw [← guarded_step]; simp only [bindCell_eq]

theorem tripleToRow_eq (t : Triple) (c : Clause)
    (hid : c.oIDAlias = [] ∨ (c.oIDAlias ≠ c.oBinding ∧ c.oIDAlias ≠ c.oAlias)) :
    tripleToRow t c = (match (clauseSteps c t).foldl bindStep (some []) with | some r => T2R.row r | none => T2R.skip) := by
  unfold tripleToRow clauseSteps
  simp only [List.foldl_cons, List.foldl_nil, bindStep_some, bindCell_eq, anchorCell_eq]
  split
  · rename_i h; simp only [h, bindSame_none, bindStep_none]
  · rename_i r1 h
    simp only [h]
    rw [guarded_step' r1 c.pAnchorBinding]
    split
    · simp only [bindSame_none, bindStep_none]
    · split
      · rename_i h2; simp only [h2, bindSame_none, bindStep_none]
      · rename_i r2 h2
        simp only [h2]
        rw [guarded_step' r2 c.pAnchorAlias]
        split
        · simp only [bindSame_none, bindStep_none]
        · split
          · rename_i h3; simp only [h3, bindSame_none, bindStep_none]
          · rename_i r3 h3
            simp only [h3]
            cases ho : t.o with
            | node n =>
              simp only [extract_some, extract_none]
              generalize (if c.optional = true then some Cell.null else (none : Option Cell)) = E
              rw [guarded_step' r3 c.oTypeAlias]
              split
              · simp only [bindSame_none, bindStep_none]
              · split
                · rename_i h4; simp only [h4, bindSame_none, bindStep_none]
                · rename_i r4 h4
                  simp only [h4]
                  -- the ID alias
                  have h5 : (if c.oIDAlias = [] then (Except.ok (some r4) : Except QErr (Option Row)) else if (c.oIDAlias == c.oBinding || c.oIDAlias == c.oAlias) = true then Except.ok (some (r4.set c.oIDAlias (Cell.str n.id))) else Except.ok (bindSame (some r4) c.oIDAlias (Cell.str n.id))) =
                      Except.ok (bindStep (some r4) (c.oIDAlias, some (Cell.str n.id))) := by
                    rcases hid with hid | ⟨h1, h2⟩
                    · simp [hid, bindStep]
                    · by_cases he : c.oIDAlias = []
                      · simp [he, bindStep]
                      · simp [he, h1, h2, bindStep_some]
                  simp only [h5]
                  cases hb : bindStep (some r4) (c.oIDAlias, some (Cell.str n.id)) with
                  | none => simp [bindStep_none, bindSame_none]
                  | some r5 =>
                    dsimp only
                    rw [guarded_step' r5 c.oAnchorBinding]
                    split
                    · simp only [bindSame_none, bindStep_none]
                    · split
                      · rename_i h6; simp only [h6, bindSame_none, bindStep_none]
                      · rename_i r6 h6
                        simp only [h6]
                        rw [guarded_step' r6 c.oAnchorAlias]
                        split
                        · rfl
                        · split
                          · rename_i h7; simp only [h7]
                          · rename_i r7 h7; simp only [h7]
            | pred p =>
              simp only [extract_some, extract_none]
              generalize (if c.optional = true then some Cell.null else (none : Option Cell)) = E
              generalize extract c.optional (anchorOf p) = E2
              rw [guarded_step' r3 c.oTypeAlias]
              split
              · simp only [bindSame_none, bindStep_none]
              · split
                · rename_i h4; simp only [h4, bindSame_none, bindStep_none]
                · rename_i r4 h4
                  simp only [h4]
                  -- the ID alias
                  have h5 : (if c.oIDAlias = [] then (Except.ok (some r4) : Except QErr (Option Row)) else Except.ok (bindSame (some r4) c.oIDAlias (Cell.str p.id))) =
                      Except.ok (bindStep (some r4) (c.oIDAlias, some (Cell.str p.id))) := by
                    by_cases he : c.oIDAlias = []
                    · simp [he, bindStep]
                    · simp [he, bindStep_some, bindStep]
                  simp only [h5]
                  cases hb : bindStep (some r4) (c.oIDAlias, some (Cell.str p.id)) with
                  | none => simp [bindStep_none, bindSame_none]
                  | some r5 =>
                    dsimp only
                    rw [guarded_step' r5 c.oAnchorBinding]
                    split
                    · simp only [bindSame_none, bindStep_none]
                    · split
                      · rename_i h6; simp only [h6, bindSame_none, bindStep_none]
                      · rename_i r6 h6
                        simp only [h6]
                        rw [guarded_step' r6 c.oAnchorAlias]
                        split
                        · rfl
                        · split
                          · rename_i h7; simp only [h7]
                          · rename_i r7 h7; simp only [h7]
            | lit l =>
              cases hopt : c.optional with
              | true =>
                simp only [extract_some, extract_none, if_true]
                rw [guarded_step' r3 c.oTypeAlias]
                split
                · simp only [bindSame_none, bindStep_none]
                · split
                  · rename_i h4; simp only [h4, bindSame_none, bindStep_none]
                  · rename_i r4 h4
                    simp only [h4]
                    -- the ID alias
                    have h5 : (if c.oIDAlias = [] then (Except.ok (some r4) : Except QErr (Option Row)) else Except.ok (bindSame (some r4) c.oIDAlias Cell.null)) =
                        Except.ok (bindStep (some r4) (c.oIDAlias, some Cell.null)) := by
                      by_cases he : c.oIDAlias = []
                      · simp [he, bindStep]
                      · simp [he, bindStep_some, bindStep]
                    simp only [h5]
                    cases hb : bindStep (some r4) (c.oIDAlias, some Cell.null) with
                    | none => simp [bindStep_none, bindSame_none]
                    | some r5 =>
                      dsimp only
                      rw [guarded_step' r5 c.oAnchorBinding]
                      split
                      · simp only [bindSame_none, bindStep_none]
                      · split
                        · rename_i h6; simp only [h6, bindSame_none, bindStep_none]
                        · rename_i r6 h6
                          simp only [h6]
                          rw [guarded_step' r6 c.oAnchorAlias]
                          split
                          · rfl
                          · split
                            · rename_i h7; simp only [h7]
                            · rename_i r7 h7; simp only [h7]
              | false =>
                simp only [extract_some, extract_none, Bool.false_eq_true, if_false]
                rw [guarded_step' r3 c.oTypeAlias]
                split
                · simp only [bindSame_none, bindStep_none]
                · split
                  · rename_i h4; simp only [h4, bindSame_none, bindStep_none]
                  · rename_i r4 h4
                    simp only [h4]
                    -- the ID alias
                    have h5 : (if c.oIDAlias = [] then (Except.ok (some r4) : Except QErr (Option Row)) else Except.ok none) =
                        Except.ok (bindStep (some r4) (c.oIDAlias, none)) := by
                      by_cases he : c.oIDAlias = []
                      · simp [he, bindStep]
                      · simp [he, bindStep_some, bindStep]
                    simp only [h5]
                    cases hb : bindStep (some r4) (c.oIDAlias, none) with
                    | none => simp [bindStep_none, bindSame_none]
                    | some r5 =>
                      dsimp only
                      rw [guarded_step' r5 c.oAnchorBinding]
                      split
                      · simp only [bindSame_none, bindStep_none]
                      · split
                        · rename_i h6; simp only [h6, bindSame_none, bindStep_none]
                        · rename_i r6 h6
                          simp only [h6]
                          rw [guarded_step' r6 c.oAnchorAlias]
                          split
                          · rfl
                          · split
                            · rename_i h7; simp only [h7]
                            · rename_i r7 h7; simp only [h7]

/-- What a clause binds on a triple (the reference's binding steps). -/
def specBind (c : Clause) (t : Triple) : Option Row := (clauseSteps c t).foldl bindStep (some [])

/-- The ID alias of the object is not named after the object's own binding or alias (the idiom
    `?o ID ?o`, pinned by the suite, overwrites instead of comparing). -/
def IdAliasPlain (c : Clause) : Prop := c.oIDAlias = [] ∨ (c.oIDAlias ≠ c.oBinding ∧ c.oIDAlias ≠ c.oAlias)

/-- The row one delivered triple contributes to a fetch. -/
def fetchRow (c : Clause) (t : Triple) : Option Row :=
  if shouldIgnore t c then none else
  match specBind c t with
  | some r => if r.isEmpty then none else some r
  | none => none

theorem foldlM_filterMap {α β ε : Type} (f : List β → α → Except ε (List β)) (g : α → Option β)
    (h : ∀ acc t, f acc t = .ok (match g t with | some r => acc ++ [r] | none => acc)) (ts : List α) (acc : List β) :
    ts.foldlM f acc = .ok (acc ++ ts.filterMap g) := by
  induction ts generalizing acc with
  | nil => simp [pure, Except.pure]
  | cons t ts ih =>
    simp only [List.foldlM_cons, List.filterMap_cons, h, bind, Except.bind]
    cases g t with
    | none => exact ih acc
    | some r => simp only [ih]; simp

theorem addTriples_eq (c : Clause) (hid : IdAliasPlain c) (ts : List Triple) :
    addTriples ts c = .ok (ts.filterMap (fetchRow c)) := by
  unfold addTriples
  rw [foldlM_filterMap _ (fetchRow c) _ ts []]
  · simp
  · intro acc t
    unfold fetchRow
    by_cases hi : shouldIgnore t c = true
    · simp only [hi, if_true, pure, Except.pure]
    · simp only [hi, Bool.false_eq_true, if_false]
      rw [tripleToRow_eq t c hid]
      unfold specBind
      cases (clauseSteps c t).foldl bindStep (some []) with
      | none => simp only [pure, Except.pure]
      | some r =>
        simp only [pure, Except.pure]
        by_cases he : r.isEmpty = true
        · simp only [he, if_true]
        · simp only [he, Bool.false_eq_true, if_false]


/-- The window already contains the clause's own predicate bounds. -/
def Tight (c : Clause) (w : Window) : Prop :=
  (∀ l, c.pLower = some l → ∃ wl, w.lower = some wl ∧ l.nanos ≤ wl) ∧
  (∀ u, c.pUpper = some u → ∃ wu, w.upper = some wu ∧ wu ≤ u.nanos)

theorem predIgnored_window (c : Clause) (w : Window) (p : Pred) (ht : Tight c w) (hw : w.holds p = true) :
    predIgnored c.pID c.pTemporal c.pAnchorBinding c.pLower c.pUpper p =
      (decide (p.id ≠ c.pID) || (c.pTemporal && decide (c.pAnchorBinding = []) && p.anchor.isNone)) := by
  unfold predIgnored
  by_cases hid : p.id = c.pID
  · simp only [hid, ne_eq, not_true_eq_false, if_false, decide_false, Bool.false_or]
    by_cases h1 : (c.pTemporal && decide (c.pAnchorBinding = [])) = true
    · simp only [h1, if_true, Bool.true_and]
      cases p with
      | imm i => simp [Pred.anchor]
      | tmp i ta =>
        simp only [Pred.anchor, Option.isNone_some]
        simp only [Window.holds, Bool.and_eq_true] at hw
        have h1' := ht.1
        have h2' := ht.2
        cases hpl : c.pLower <;> cases hpu : c.pUpper <;> simp only [hpl, hpu] at h1' h2' ⊢
        · rfl
        · rename_i u
          obtain ⟨wu, hwu, hle⟩ := h2' u rfl
          simp only [hwu, decide_eq_true_eq] at hw
          simp only [timeBefore, Bool.false_or, decide_eq_false_iff_not]; omega
        · rename_i l
          obtain ⟨wl, hwl, hle⟩ := h1' l rfl
          simp only [hwl, decide_eq_true_eq] at hw
          simp only [timeAfter, Bool.or_false, decide_eq_false_iff_not]; omega
        · rename_i l u
          obtain ⟨wl, hwl, hle⟩ := h1' l rfl
          obtain ⟨wu, hwu, hle'⟩ := h2' u rfl
          simp only [hwl, hwu, decide_eq_true_eq] at hw
          simp only [timeAfter, timeBefore, Bool.or_eq_false_iff, decide_eq_false_iff_not]; omega
    · have : (c.pTemporal && decide (c.pAnchorBinding = [])) = false := by simpa using h1
      simp [this]
  · simp [hid]

theorem predIgnored_obj (c : Clause) (p : Pred) :
    predIgnored c.oID c.oTemporal c.oAnchorBinding c.oLower c.oUpper p =
      (decide (p.id ≠ c.oID) || (c.oTemporal && decide (c.oAnchorBinding = []) && p.anchor.isNone) ||
       (decide (c.oAnchorBinding = []) && c.oTemporal &&
         !(({ lower := c.oLower.map (·.nanos), upper := c.oUpper.map (·.nanos) } : Window).holds p))) := by
  unfold predIgnored
  by_cases hid : p.id = c.oID
  · simp only [hid, ne_eq, not_true_eq_false, if_false, decide_false, Bool.false_or]
    by_cases h1 : (c.oTemporal && decide (c.oAnchorBinding = [])) = true
    · have h1' := h1
      simp only [Bool.and_eq_true, decide_eq_true_eq] at h1'
      simp only [h1, if_true, Bool.true_and, h1'.1, h1'.2, decide_true]
      cases p with
      | imm i => simp [Pred.anchor, Window.holds]
      | tmp i ta =>
        simp only [Pred.anchor, Option.isNone_some, Window.holds, Bool.false_or]
        cases hpl : c.oLower <;> cases hpu : c.oUpper <;>
          simp [timeAfter, timeBefore, Bool.not_and] <;> (rw [Bool.eq_iff_iff]; simp; try omega)
    · have h1' : (c.oTemporal && decide (c.oAnchorBinding = [])) = false := by simpa using h1
      simp only [h1', Bool.false_eq_true, if_false, Bool.false_and, Bool.false_or]
      rw [Bool.and_comm] at h1'
      simp [h1']
  · simp [hid]

theorem ite3 {α : Type} (a b c : Bool) (F : Option α) :
    (if a = true then none else if b = true then none else if c = true then none else F) =
      if (a || b || c) = true then none else F := by
  cases a <;> cases b <;> cases c <;> rfl

theorem matchClause_eq (c : Clause) (w : Window) (t : Triple) (ht : Tight c w) :
    matchClause c w t =
      if (constsMatch c t && w.holds t.p) = true then (if shouldIgnore t c = true then none else specBind c t) else none := by
  unfold matchClause
  by_cases hc : constsMatch c t = true
  · by_cases hw : w.holds t.p = true
    · simp only [hc, hw, Bool.not_true, Bool.false_eq_true, if_false, Bool.and_self, if_true]
      rw [ite3]
      unfold shouldIgnore specBind
      rw [predIgnored_window c w t.p ht hw]
      congr 1
      cases ho : t.o with
      | pred p =>
        simp only [predIgnored_obj]
        generalize decide (c.pID ≠ []) = b1
        generalize decide (t.p.id ≠ c.pID) = b2
        generalize decide (c.pAnchorBinding = []) = b3
        generalize t.p.anchor.isNone = b4
        generalize decide (c.oID ≠ []) = b5
        generalize (decide (p.id ≠ c.oID) || c.oTemporal && decide (c.oAnchorBinding = []) && p.anchor.isNone ||
          decide (c.oAnchorBinding = []) && c.oTemporal && !Window.holds _ p) = b6
        cases b1 <;> cases b2 <;> cases b3 <;> cases b4 <;> cases b5 <;> cases b6 <;> cases c.pTemporal <;> rfl
      | node n =>
        generalize decide (c.pID ≠ []) = b1
        generalize decide (t.p.id ≠ c.pID) = b2
        generalize decide (c.pAnchorBinding = []) = b3
        generalize t.p.anchor.isNone = b4
        generalize decide (c.oID ≠ []) = b5
        cases b1 <;> cases b2 <;> cases b3 <;> cases b4 <;> cases b5 <;> cases c.pTemporal <;> rfl
      | lit l =>
        generalize decide (c.pID ≠ []) = b1
        generalize decide (t.p.id ≠ c.pID) = b2
        generalize decide (c.pAnchorBinding = []) = b3
        generalize t.p.anchor.isNone = b4
        generalize decide (c.oID ≠ []) = b5
        cases b1 <;> cases b2 <;> cases b3 <;> cases b4 <;> cases b5 <;> cases c.pTemporal <;> rfl
    · have hw' : w.holds t.p = false := by simpa using hw
      simp only [hc, hw', Bool.not_true, Bool.false_eq_true, if_false, Bool.and_false, Bool.not_false, if_true]
      split <;> (try rfl)
      split <;> rfl
  · have hc' : constsMatch c t = false := by simpa using hc
    simp [hc']

theorem get_append_single (r : Row) (k : Bytes) (c : Cell) (k' : Bytes) :
    (r ++ [(k, c)]).get k' = (r.get k').orElse fun _ => if k == k' then some c else none := by
  unfold Row.get
  rw [List.find?_append]
  cases h : List.find? (fun x => x.1 == k') r with
  | some p => simp
  | none =>
    simp only [Option.none_or, Option.map_none, Option.orElse]
    by_cases hk : (k == k') = true
    · simp [List.find?_cons, hk]
    · simp [List.find?_cons, hk]

theorem get_set_has (r : Row) (k : Bytes) (c : Cell) (k' : Bytes) (h : r.has k = true) :
    (r.set k c).get k' = if k' = k then some c else r.get k' := by
  unfold Row.set
  simp only [h, if_true]
  unfold Row.has at h
  unfold Row.get
  induction r with
  | nil => simp at h
  | cons p r ih =>
    simp only [List.map_cons, List.find?_cons]
    by_cases hp : (p.1 == k) = true
    · have hpk : p.1 = k := by simpa using hp
      simp only [hp, if_true]
      by_cases hk' : k' = k
      · subst hk'; simp
      · have : (k == k') = false := by simpa using fun h => hk' h.symm
        have h2 : (p.1 == k') = false := by rw [hpk]; exact this
        simp only [this, h2, hk', if_false]
        by_cases hr : (r.any fun x => x.1 == k) = true
        · have := ih hr; simp only [hk', if_false] at this; exact this
        · -- no further entry with key k: the map is the identity on r
          have hr' : ∀ x ∈ r, (x.1 == k) = false := by
            intro x hx
            cases hxk : (x.1 == k) with
            | false => rfl
            | true => exact absurd (List.any_eq_true.mpr ⟨x, hx, hxk⟩) hr
          have : r.map (fun p => if (p.1 == k) = true then (k, c) else p) = r := by
            conv => rhs; rw [← List.map_id r]
            apply List.map_congr_left
            intro x hx; simp [hr' x hx]
          rw [this]
    · have hp' : (p.1 == k) = false := by simpa using hp
      simp only [hp', Bool.false_eq_true, if_false]
      have hr : (r.any fun x => x.1 == k) = true := by
        simp only [List.any_cons, hp', Bool.false_or] at h; exact h
      have := ih hr
      by_cases hk' : k' = k
      · subst hk'
        simp only [hp', if_true] at this ⊢
        exact this
      · simp only [hk', if_false] at this ⊢
        cases hpk' : (p.1 == k') with
        | true => rfl
        | false => exact this

/-- Options of rows related by `RowEq`, both without repeated keys. -/
def ORel : Option Row → Option Row → Prop
  | none, none => True
  | some r, some r' => RowEq r r' ∧ KeysNodup r ∧ KeysNodup r'
  | _, _ => False

theorem bindSame_congr (acc acc' : Option Row) (k : Bytes) (c c' : Cell) (h : ORel acc acc')
    (hc : normCell c = normCell c') : ORel (bindSame acc k c) (bindSame acc' k c') := by
  cases acc with
  | none => cases acc' with
    | none => exact trivial
    | some r' => exact h.elim
  | some r => cases acc' with
    | none => exact h.elim
    | some r' =>
      obtain ⟨he, hn, hn'⟩ := h
      unfold bindSame
      simp only
      by_cases hk : k = []
      · simp only [hk, if_true]; exact ⟨he, hn, hn'⟩
      · simp only [hk, if_false]
        have hek := he k
        cases hg : r.get k with
        | none =>
          cases hg' : r'.get k with
          | some v => simp [hg, hg'] at hek
          | none =>
            refine ⟨?_, keysNodup_append_single r k c hn hg, keysNodup_append_single r' k c' hn' hg'⟩
            intro k'
            rw [get_append_single, get_append_single]
            have := he k'
            cases h1 : r.get k' <;> cases h2 : r'.get k' <;> simp [h1, h2] at this ⊢
            · by_cases hkk : (k == k') = true <;> simp [hkk, hc]
            · exact this
        | some old =>
          cases hg' : r'.get k with
          | none => simp [hg, hg'] at hek
          | some old' =>
            simp only [hg, hg', Option.map_some, Option.some.injEq] at hek
            have hsame : cellSame old c = cellSame old' c' := by
              rw [Bool.eq_iff_iff, cellSame_iff, cellSame_iff, hek, hc]
            simp only [hsame]
            by_cases hs : cellSame old' c' = true
            · simp only [hs, if_true]
              have hh : r.has k = true := by rw [has_iff_get, hg]; rfl
              have hh' : r'.has k = true := by rw [has_iff_get, hg']; rfl
              refine ⟨?_, ?_, ?_⟩
              · intro k'
                rw [get_set_has r k c k' hh, get_set_has r' k c' k' hh']
                by_cases hkk : k' = k
                · simp [hkk, hc]
                · simp only [hkk, if_false]; exact he k'
              · unfold KeysNodup; rw [keys_set r k c hh]; exact hn
              · unfold KeysNodup; rw [keys_set r' k c' hh']; exact hn'
            · simp only [hs, Bool.false_eq_true, if_false]; exact trivial

theorem bindStep_congr (acc acc' : Option Row) (k : Bytes) (e e' : Option Cell) (h : ORel acc acc')
    (he : e.map normCell = e'.map normCell) : ORel (bindStep acc (k, e)) (bindStep acc' (k, e')) := by
  unfold bindStep
  by_cases hk : k = []
  · simp only [hk, if_true]; exact h
  · simp only [hk, if_false]
    cases e with
    | none => cases e' with
      | none => exact trivial
      | some c' => simp at he
    | some c => cases e' with
      | none => simp at he
      | some c' =>
        simp only [Option.map_some, Option.some.injEq] at he
        exact bindSame_congr acc acc' k c c' h he


/-- The same triple up to the representation of anchors (zone). -/
def TripleEq (t t' : Triple) : Prop := t.s = t'.s ∧ predSame t.p t'.p = true ∧ objSame t.o t'.o = true

theorem predSame_parts {p p' : Pred} (h : predSame p p' = true) :
    p.id = p'.id ∧ p.anchor.map (·.nanos) = p'.anchor.map (·.nanos) := by
  simpa [predSame] using h

theorem anchorOf_congr {p p' : Pred} (h : predSame p p' = true) :
    (anchorOf p).map normCell = (anchorOf p').map normCell := by
  have ⟨_, h2⟩ := predSame_parts h
  cases p <;> cases p' <;> simp [Pred.anchor] at h2 <;> simp [anchorOf, normCell, h2]

theorem extract_congr (o : Bool) (e e' : Option Cell) (h : e.map normCell = e'.map normCell) :
    (extract o e).map normCell = (extract o e').map normCell := by
  cases e <;> cases e' <;> simp [extract] at h ⊢
  exact h

theorem specBind_congr (c : Clause) (t t' : Triple) (h : TripleEq t t') : ORel (specBind c t) (specBind c t') := by
  obtain ⟨hs, hp, ho⟩ := h
  have ⟨hpid, _⟩ := predSame_parts hp
  have hpc : normCell (.pred t.p) = normCell (.pred t'.p) := (cellSame_iff _ _).mp (by simpa [cellSame] using hp)
  have hoc : normCell (objCell t.o) = normCell (objCell t'.o) := by
    apply (cellSame_iff _ _).mp
    cases hto : t.o <;> cases hto' : t'.o <;> simp [hto, hto', objSame] at ho <;> simp [objCell, cellSame, ho]
  have h0 : ORel (some []) (some []) := ⟨RowEq.refl _, List.nodup_nil, List.nodup_nil⟩
  unfold specBind clauseSteps
  simp only [List.foldl_cons, List.foldl_nil]
  rw [hs, hpid]
  refine bindStep_congr _ _ _ _ _ (bindStep_congr _ _ _ _ _ (bindStep_congr _ _ _ _ _ (bindStep_congr _ _ _ _ _
    (bindStep_congr _ _ _ _ _ (bindStep_congr _ _ _ _ _ (bindStep_congr _ _ _ _ _ (bindStep_congr _ _ _ _ _
    (bindStep_congr _ _ _ _ _ (bindStep_congr _ _ _ _ _ (bindStep_congr _ _ _ _ _ (bindStep_congr _ _ _ _ _
    (bindStep_congr _ _ _ _ _ (bindStep_congr _ _ _ _ _ (bindStep_congr _ _ _ _ _ h0 ?_) ?_) ?_) ?_) ?_) ?_) ?_) ?_)
    ?_) ?_) ?_) ?_) ?_) ?_) ?_
  all_goals first
    | rfl
    | (simp only [Option.map_some]; rw [hpc])
    | (simp only [Option.map_some]; rw [hoc])
    | exact extract_congr _ _ _ (anchorOf_congr hp)
    | skip
  all_goals
    apply extract_congr
    cases hto : t.o <;> cases hto' : t'.o <;> simp [hto, hto', objSame] at ho <;> simp [ho]
    all_goals first
      | exact anchorOf_congr ho
      | (have := predSame_parts ho; simp [normCell, this.1])

end BW.Proofs.Planner
