/-
Round trips and reader behaviour of the text forms (C05, C15), on the structural model of
BW/Model/Text.lean, under the laws of the leaf codecs (`LeafLaws`).
-/
import BW.Model.Text

set_option linter.unusedSimpArgs false
set_option linter.unnecessarySimpa false
set_option linter.unusedVariables false

namespace BW.Proofs.Text
open BW.Model BW.Model.Text


theorem lastIndexOf_none_of_head_absent (p : UInt8) (ptail s : Bytes) (h : p ∉ s) : lastIndexOf (p :: ptail) s = none := by
  induction s with
  | nil => simp [lastIndexOf]
  | cons c cs ih =>
    simp only [List.mem_cons, not_or] at h
    have hpre : (p :: ptail).isPrefixOf (c :: cs) = false := by
      simp only [List.isPrefixOf, Bool.and_eq_false_iff]
      left
      simp only [beq_eq_false_iff_ne, ne_eq]
      exact h.1
    simp only [lastIndexOf, ih h.2, hpre]
    rfl

theorem lastIndexOf_append (p : UInt8) (ptail a b : Bytes) (h : p ∉ ptail ++ b) :
    lastIndexOf (p :: ptail) (a ++ (p :: ptail) ++ b) = some a.length := by
  induction a with
  | nil =>
    have hpre : (p :: ptail).isPrefixOf (p :: (ptail ++ b)) = true := by
      simp only [List.isPrefixOf, beq_self_eq_true, Bool.true_and]
      exact List.isPrefixOf_iff_prefix.mpr (List.prefix_append _ _)
    show lastIndexOf (p :: ptail) (p :: (ptail ++ b)) = some 0
    simp only [lastIndexOf, lastIndexOf_none_of_head_absent p ptail (ptail ++ b) h, hpre]
    rfl
  | cons c cs ih =>
    have e : (c :: cs) ++ (p :: ptail) ++ b = c :: (cs ++ (p :: ptail) ++ b) := by simp
    rw [e]
    simp only [lastIndexOf, ih, List.length_cons]
theorem trim_id (s : Bytes) (h1 : ∀ c, s.head? = some c → asciiSpace c = false)
    (h2 : ∀ c, s.getLast? = some c → asciiSpace c = false) : trim s = s := by
  unfold trim
  have e1 : s.dropWhile asciiSpace = s := by
    cases s with
    | nil => rfl
    | cons c cs => simp [List.dropWhile, h1 c rfl]
  rw [e1]
  have e2 : s.reverse.dropWhile asciiSpace = s.reverse := by
    cases hr : s.reverse with
    | nil => rfl
    | cons c cs =>
      have : s.getLast? = some c := by
        rw [List.getLast?_eq_head?_reverse, hr]; rfl
      simp [List.dropWhile, h2 c this]
  rw [e2, List.reverse_reverse]

theorem indexOf_first (c : UInt8) (a b : Bytes) (h : c ∉ a) : indexOf [c] (a ++ c :: b) = some a.length := by
  induction a with
  | nil => simp [indexOf, List.isPrefixOf]
  | cons x xs ih =>
    simp only [List.mem_cons, not_or] at h
    have hpre : [c].isPrefixOf (x :: (xs ++ c :: b)) = false := by
      simp only [List.isPrefixOf, Bool.and_true, beq_eq_false_iff_ne, ne_eq]
      exact h.1
    simp only [List.cons_append, indexOf, hpre, ih h.2, List.length_cons]
    rfl

theorem take_left' (A B : Bytes) : (A ++ B).take A.length = A := by
  induction A with
  | nil => simp
  | cons a A ih => simp [ih]

theorem drop_mid (A B : Bytes) (x : UInt8) : (A ++ x :: B).drop (A.length + 1) = B := by
  induction A with
  | nil => simp
  | cons a A ih => simpa using ih

structure NodeOK (n : Node) : Prop where
  ty : validType n.ty = true
  tyNoLt : lt ∉ n.ty
  id : validID n.id = true

theorem parseNode_printNode (n : Node) (h : NodeOK n) : parseNode (printNode n) = some n := by
  obtain ⟨ty, id⟩ := n
  have hty := h.ty
  have hid := h.id
  have hnl := h.tyNoLt
  simp only at hty hid hnl
  have hhead : ty.head? = some slash := by
    simp only [validType, Bool.and_eq_true, beq_iff_eq] at hty
    exact hty.1.1.2
  obtain ⟨trest, rfl⟩ : ∃ r, ty = slash :: r := by
    cases ty with
    | nil => simp at hhead
    | cons c r => simp only [List.head?_cons, Option.some.injEq] at hhead; exact ⟨r, by rw [hhead]⟩
  have hp : printNode ⟨slash :: trest, id⟩ = (slash :: trest) ++ lt :: (id ++ [gt]) := by
    simp [printNode]
  have hlastP : ((slash :: trest) ++ lt :: (id ++ [gt])).getLast? = some gt := by
    rw [List.getLast?_eq_head?_reverse]; simp
  have htrim : trim ((slash :: trest) ++ lt :: (id ++ [gt])) = (slash :: trest) ++ lt :: (id ++ [gt]) := by
    apply trim_id
    · intro c hc; simp only [List.cons_append, List.head?_cons, Option.some.injEq] at hc; subst hc; decide
    · intro c hc; rw [hlastP] at hc; cases hc; decide
  unfold parseNode
  rw [hp]
  simp only [htrim]
  have hlen : ¬ ((slash :: trest) ++ lt :: (id ++ [gt])).length < 2 := by simp; omega
  simp only [hlen, if_false]
  have hidx : indexOf [lt] ((slash :: trest) ++ lt :: (id ++ [gt])) = some (slash :: trest).length :=
    indexOf_first lt (slash :: trest) (id ++ [gt]) hnl
  have hcons : (slash :: trest) ++ lt :: (id ++ [gt]) = slash :: (trest ++ lt :: (id ++ [gt])) := rfl
  rw [hcons]
  simp only [beq_self_eq_true, if_true]
  rw [← hcons, hidx]
  simp only
  have htake : ((slash :: trest) ++ lt :: (id ++ [gt])).take (slash :: trest).length = slash :: trest := by
    exact take_left' _ _
  rw [htake, hty, hlastP]
  simp only [Bool.not_true, Bool.false_eq_true, if_false, bne_self_eq_false]
  have hdrop : (((slash :: trest) ++ lt :: (id ++ [gt])).drop ((slash :: trest).length + 1)).take
      (((slash :: trest) ++ lt :: (id ++ [gt])).length - 1 - ((slash :: trest).length + 1)) = id := by
    have e : ((slash :: trest) ++ lt :: (id ++ [gt])).drop ((slash :: trest).length + 1) = id ++ [gt] := by
      exact drop_mid _ _ _
    rw [e]
    have : ((slash :: trest) ++ lt :: (id ++ [gt])).length - 1 - ((slash :: trest).length + 1) = id.length := by
      simp; omega
    rw [this]
    simp
  rw [hdrop, hid]
  simp

structure LeafLaws (L : Leaf) : Prop where
  unq_quote : ∀ i, L.unquote (L.quote i) = some i
  quote_shape : ∀ i, ∃ body, L.quote i = dq :: (body ++ [dq])
  time_round : ∀ t, L.parseTime (L.fmtTime t) = some t
  time_noDq : ∀ t, dq ∉ L.fmtTime t
  time_nonempty : ∀ t, L.fmtTime t ≠ []
  float_round : ∀ b, L.parseFloat (L.fmtFloat b) = some b
  float_noDq : ∀ b, dq ∉ L.fmtFloat b

theorem getLast?_append_singleton (A : Bytes) (x : UInt8) : (A ++ [x]).getLast? = some x := by
  rw [List.getLast?_eq_head?_reverse]; simp

theorem drop_left' (A B : Bytes) : (A ++ B).drop A.length = B := by
  induction A with
  | nil => simp
  | cons a A ih => simpa using ih

theorem parsePred_printPred (L : Leaf) (hL : LeafLaws L) (p : Pred) : parsePred L (printPred L p) = some p := by
  cases p with
  | imm i =>
    obtain ⟨body, hq⟩ := hL.quote_shape i
    have hraw : printPred L (.imm i) = (dq :: body) ++ sepPred ++ [rb] := by
      simp [printPred, hq, sepPred]
    have htrim : trim ((dq :: body) ++ sepPred ++ [rb]) = (dq :: body) ++ sepPred ++ [rb] := by
      apply trim_id
      · intro c hc; simp only [List.cons_append, List.head?_cons, Option.some.injEq] at hc; subst hc; decide
      · intro c hc; rw [getLast?_append_singleton] at hc; cases hc; decide
    have hidx : lastIndexOf sepPred ((dq :: body) ++ sepPred ++ [rb]) = some (dq :: body).length :=
      lastIndexOf_append dq [64, 91] (dq :: body) [rb] (by decide)
    unfold parsePred
    rw [hraw]
    simp only [htrim]
    have hne : ((dq :: body) ++ sepPred ++ [rb]).isEmpty = false := by simp
    have hhead : ((dq :: body) ++ sepPred ++ [rb]).head? = some dq := by simp
    simp only [hne, Bool.false_eq_true, if_false, hhead, bne_self_eq_false, hidx, getLast?_append_singleton]
    have htake : ((dq :: body) ++ sepPred ++ [rb]).take ((dq :: body).length + 1) = L.quote i := by
      rw [hq]
      have : (dq :: body) ++ sepPred ++ [rb] = ((dq :: body) ++ [dq]) ++ ([64, 91] ++ [rb]) := by simp [sepPred]
      rw [this]
      have hl : (dq :: body).length + 1 = ((dq :: body) ++ [dq]).length := by simp
      rw [hl, take_left']
      simp
    rw [htake, hL.unq_quote]
    simp only
    have hta : (((dq :: body) ++ sepPred ++ [rb]).drop ((dq :: body).length + 3)).take
        (((dq :: body) ++ sepPred ++ [rb]).length - 1 - ((dq :: body).length + 3)) = [] := by
      have : ((dq :: body) ++ sepPred ++ [rb]).length - 1 - ((dq :: body).length + 3) = 0 := by simp [sepPred]
      rw [this]; simp
    rw [hta]
    simp
  | tmp i t =>
    obtain ⟨body, hq⟩ := hL.quote_shape i
    have hft := hL.time_noDq t
    have hraw : printPred L (.tmp i t) = (dq :: body) ++ sepPred ++ (L.fmtTime t ++ [rb]) := by
      simp [printPred, hq, sepPred]
    have hlast : ((dq :: body) ++ sepPred ++ (L.fmtTime t ++ [rb])).getLast? = some rb := by
      rw [← List.append_assoc]; exact getLast?_append_singleton _ _
    have htrim : trim ((dq :: body) ++ sepPred ++ (L.fmtTime t ++ [rb])) = (dq :: body) ++ sepPred ++ (L.fmtTime t ++ [rb]) := by
      apply trim_id
      · intro c hc; simp only [List.cons_append, List.head?_cons, Option.some.injEq] at hc; subst hc; decide
      · intro c hc; rw [hlast] at hc; cases hc; decide
    have hidx : lastIndexOf sepPred ((dq :: body) ++ sepPred ++ (L.fmtTime t ++ [rb])) = some (dq :: body).length := by
      apply lastIndexOf_append dq [64, 91] (dq :: body) (L.fmtTime t ++ [rb])
      simp only [List.mem_append, List.mem_cons, List.mem_nil_iff, or_false, not_or]
      exact ⟨⟨by decide, by decide⟩, hft, by decide⟩
    unfold parsePred
    rw [hraw]
    simp only [htrim]
    have hne : ((dq :: body) ++ sepPred ++ (L.fmtTime t ++ [rb])).isEmpty = false := by simp
    have hhead : ((dq :: body) ++ sepPred ++ (L.fmtTime t ++ [rb])).head? = some dq := by simp
    simp only [hne, Bool.false_eq_true, if_false, hhead, bne_self_eq_false, hidx, hlast]
    have htake : ((dq :: body) ++ sepPred ++ (L.fmtTime t ++ [rb])).take ((dq :: body).length + 1) = L.quote i := by
      rw [hq]
      have : (dq :: body) ++ sepPred ++ (L.fmtTime t ++ [rb]) = ((dq :: body) ++ [dq]) ++ ([64, 91] ++ (L.fmtTime t ++ [rb])) := by simp [sepPred]
      rw [this]
      have hl : (dq :: body).length + 1 = ((dq :: body) ++ [dq]).length := by simp
      rw [hl, take_left']
      simp
    rw [htake, hL.unq_quote]
    simp only
    have hta : (((dq :: body) ++ sepPred ++ (L.fmtTime t ++ [rb])).drop ((dq :: body).length + 3)).take
        (((dq :: body) ++ sepPred ++ (L.fmtTime t ++ [rb])).length - 1 - ((dq :: body).length + 3)) = L.fmtTime t := by
      have e1 : ((dq :: body) ++ sepPred ++ (L.fmtTime t ++ [rb])).drop ((dq :: body).length + 3) = L.fmtTime t ++ [rb] := by
        have hl : (dq :: body).length + 3 = ((dq :: body) ++ sepPred).length := by simp [sepPred]
        rw [hl, drop_left']
      have e2 : ((dq :: body) ++ sepPred ++ (L.fmtTime t ++ [rb])).length - 1 - ((dq :: body).length + 3) = (L.fmtTime t).length := by
        simp [sepPred]; omega
      rw [e1, e2, take_left']
    rw [hta]
    have hne2 : (L.fmtTime t).isEmpty = false := by
      cases h : L.fmtTime t with
      | nil => exact absurd h (hL.time_nonempty t)
      | cons _ _ => rfl
    have hnq : ((L.fmtTime t).head? == some dq) = false := by
      cases h : L.fmtTime t with
      | nil => rfl
      | cons c cs =>
        rw [h] at hft
        simp only [List.mem_cons, not_or] at hft
        simp only [List.head?_cons, beq_eq_false_iff_ne, ne_eq, Option.some.injEq]
        exact fun e => hft.1 e.symm
    simp only [hne2, Bool.false_eq_true, if_false, hnq, Bool.and_false, Bool.false_and, hL.time_round, Option.map_some]

/-! ### Literals -/

theorem digit_back : ∀ d : Fin 10, (UInt8.ofNat (48 + d.val)).toNat - 48 = d.val ∧ isDigit (UInt8.ofNat (48 + d.val)) = true := by decide

theorem natOfDigits_snoc (a : Bytes) (d : UInt8) : natOfDigits (a ++ [d]) = natOfDigits a * 10 + (d.toNat - 48) := by
  simp [natOfDigits, List.foldl_append]

theorem natOfDigits_single (d : UInt8) : natOfDigits [d] = d.toNat - 48 := by
  simp only [natOfDigits, List.foldl_cons, List.foldl_nil]; omega

theorem digits_spec (n : Nat) : natOfDigits (digits n) = n ∧ (digits n).all isDigit = true ∧ digits n ≠ [] := by
  fun_induction digits n with
  | case1 n h =>
    have := digit_back ⟨n, h⟩
    refine ⟨?_, ?_, List.cons_ne_nil _ _⟩
    · rw [natOfDigits_single]; exact this.1
    · simp only [List.all_cons, List.all_nil, Bool.and_true]; exact this.2
  | case2 n h ih =>
    have hm : n % 10 < 10 := Nat.mod_lt _ (by decide)
    have := digit_back ⟨n % 10, hm⟩
    refine ⟨?_, ?_, ?_⟩
    · have h1 : (UInt8.ofNat (48 + n % 10)).toNat - 48 = n % 10 := this.1
      rw [natOfDigits_snoc, ih.1, h1]; omega
    · rw [List.all_append, ih.2.1]
      simp only [List.all_cons, List.all_nil, Bool.and_true, Bool.true_and]; exact this.2
    · intro e
      have := congrArg List.length e
      simp at this

def IsI64 (i : Int) : Prop := -9223372036854775808 ≤ i ∧ i ≤ 9223372036854775807

theorem digits_head_digit (n : Nat) : ∀ c, (digits n).head? = some c → isDigit c = true := by
  intro c hc
  have h := (digits_spec n).2.1
  cases hd : digits n with
  | nil => rw [hd] at hc; cases hc
  | cons x xs =>
    rw [hd] at hc h
    simp only [List.head?_cons, Option.some.injEq] at hc
    simp only [List.all_cons, Bool.and_eq_true] at h
    rw [← hc]; exact h.1

theorem parseInt64_fmtInt (i : Int) (h : IsI64 i) : parseInt64 (fmtInt i) = some i := by
  unfold fmtInt
  by_cases hn : i < 0
  · simp only [hn, if_true]
    obtain ⟨h1, h2, h3⟩ := digits_spec i.natAbs
    unfold parseInt64
    have he : (digits i.natAbs).isEmpty = false := by
      cases hd : digits i.natAbs with
      | nil => exact absurd hd h3
      | cons _ _ => rfl
    simp only [List.head?_cons, beq_self_eq_true, Bool.true_or, if_true, List.drop_succ_cons, List.drop_zero,
      he, h2, Bool.not_true, Bool.or_false, Bool.false_eq_true, if_false, h1]
    have hb : i.natAbs ≤ 9223372036854775808 := by
      have := h.1; omega
    simp only [hb, if_true, Option.some.injEq]
    omega
  · simp only [hn, if_false]
    obtain ⟨h1, h2, h3⟩ := digits_spec i.toNat
    have hhd := digits_head_digit i.toNat
    have hnot : ((digits i.toNat).head? == some 45 || (digits i.toNat).head? == some 43) = false := by
      cases hd : (digits i.toNat).head? with
      | none => rfl
      | some c =>
        have hc := hhd c hd
        have hne45 : c ≠ 45 := by intro e; rw [e] at hc; revert hc; decide
        have hne43 : c ≠ 43 := by intro e; rw [e] at hc; revert hc; decide
        simp [hne45, hne43]
    have hneg : ((digits i.toNat).head? == some 45) = false := by
      simp only [Bool.or_eq_false_iff] at hnot; exact hnot.1
    unfold parseInt64
    have he : (digits i.toNat).isEmpty = false := by
      cases hd : digits i.toNat with
      | nil => exact absurd hd h3
      | cons _ _ => rfl
    have h43 : ((digits i.toNat).head? == some 43) = false := by
      simp only [Bool.or_eq_false_iff] at hnot; exact hnot.2
    simp only [hneg, h43, Bool.or_self, Bool.false_eq_true, if_false, he, h2, Bool.not_true, Bool.or_false, h1]
    have hb : i.toNat ≤ 9223372036854775807 := by
      have := h.2; omega
    simp only [hb, if_true, Option.some.injEq]
    omega

/-- The shape every printed literal has, and how `parseLit` cuts it. -/
theorem parseLit_cut (L : Leaf) (v tname : Bytes) (hd : dq ∉ tname) (hne : tname ≠ [])
    (hlast : ∀ c, tname.getLast? = some c → asciiSpace c = false) :
    trim ((dq :: v) ++ sepLit ++ tname) = (dq :: v) ++ sepLit ++ tname ∧
    lastIndexOf sepLit ((dq :: v) ++ sepLit ++ tname) = some (v.length + 1) ∧
    ((((dq :: v) ++ sepLit ++ tname).take (v.length + 1)).drop 1) = v ∧
    (((dq :: v) ++ sepLit ++ tname).drop (v.length + 1 + sepLit.length)) = tname := by
  refine ⟨?_, ?_, ?_, ?_⟩
  · apply trim_id
    · intro c hc; simp only [List.cons_append, List.head?_cons, Option.some.injEq] at hc; subst hc; decide
    · intro c hc
      have : ((dq :: v) ++ sepLit ++ tname).getLast? = tname.getLast? := by
        rw [List.getLast?_eq_head?_reverse, List.getLast?_eq_head?_reverse, List.reverse_append]
        cases hr : tname.reverse with
        | nil => exact absurd (List.reverse_eq_nil_iff.mp hr) hne
        | cons x xs => simp
      rw [this] at hc
      exact hlast c hc
  · have := lastIndexOf_append dq [94, 94, 116, 121, 112, 101, 58] (dq :: v) tname (by
      simp only [List.mem_append, not_or]; exact ⟨by decide, hd⟩)
    simpa [sepLit] using this
  · have : (dq :: v) ++ sepLit ++ tname = (dq :: v) ++ (sepLit ++ tname) := by simp
    rw [this]
    have hl : v.length + 1 = (dq :: v).length := by simp
    rw [hl, take_left']
    simp
  · have hl : v.length + 1 + sepLit.length = ((dq :: v) ++ sepLit).length := by simp; omega
    rw [hl, drop_left']

theorem parseLit_printLit_bool (L : Leaf) (b : Bool) : parseLit L (printLit L (.bool b)) = some (.bool b) := by
  have hcut := parseLit_cut L (if b then trueBytes else falseBytes) [98, 111, 111, 108] (by decide) (by decide) (by intro c hc; cases hc; decide)
  unfold parseLit
  have hp : printLit L (.bool b) = (dq :: (if b then trueBytes else falseBytes)) ++ sepLit ++ [98, 111, 111, 108] := by
    simp [printLit]
  rw [hp]
  simp only [hcut.1, hcut.2.1, hcut.2.2.1, hcut.2.2.2]
  have h1 : ((dq :: (if b then trueBytes else falseBytes)) ++ sepLit ++ [98, 111, 111, 108]).isEmpty = false := by simp
  have h2 : ((dq :: (if b then trueBytes else falseBytes)) ++ sepLit ++ [98, 111, 111, 108]).head? = some dq := by simp
  have h3 : ¬ ((if b then trueBytes else falseBytes).length + 1 < 1) := by omega
  simp only [h1, h2, h3, Bool.false_eq_true, if_false, bne_self_eq_false]
  have e1 : (([98, 111, 111, 108] : Bytes) == [98, 111, 111, 108]) = true := by decide
  simp only [e1, if_true]
  cases b <;> decide

theorem parseLit_printLit_text (L : Leaf) (t : Bytes) : parseLit L (printLit L (.text t)) = some (.text t) := by
  have hcut := parseLit_cut L t [116, 101, 120, 116] (by decide) (by decide) (by intro c hc; cases hc; decide)
  unfold parseLit
  have hp : printLit L (.text t) = (dq :: t) ++ sepLit ++ [116, 101, 120, 116] := by simp [printLit]
  rw [hp]
  simp only [hcut.1, hcut.2.1, hcut.2.2.1, hcut.2.2.2]
  have h1 : ((dq :: t) ++ sepLit ++ [116, 101, 120, 116]).isEmpty = false := by simp
  have h2 : ((dq :: t) ++ sepLit ++ [116, 101, 120, 116]).head? = some dq := by simp
  have h3 : ¬ (t.length + 1 < 1) := by omega
  simp only [h1, h2, h3, Bool.false_eq_true, if_false, bne_self_eq_false]
  have e1 : (([116, 101, 120, 116] : Bytes) == [98, 111, 111, 108]) = false := by decide
  have e2 : (([116, 101, 120, 116] : Bytes) == [105, 110, 116, 54, 52]) = false := by decide
  have e3 : (([116, 101, 120, 116] : Bytes) == [102, 108, 111, 97, 116, 54, 52]) = false := by decide
  have e4 : (([116, 101, 120, 116] : Bytes) == [116, 101, 120, 116]) = true := by decide
  simp only [e1, e2, e3, e4, Bool.false_eq_true, if_false, if_true]

theorem parseLit_printLit_int (L : Leaf) (i : Int) (h : IsI64 i) : parseLit L (printLit L (.int i)) = some (.int i) := by
  have hcut := parseLit_cut L (fmtInt i) [105, 110, 116, 54, 52] (by decide) (by decide) (by intro c hc; cases hc; decide)
  unfold parseLit
  have hp : printLit L (.int i) = (dq :: fmtInt i) ++ sepLit ++ [105, 110, 116, 54, 52] := by simp [printLit]
  rw [hp]
  simp only [hcut.1, hcut.2.1, hcut.2.2.1, hcut.2.2.2]
  have h1 : ((dq :: fmtInt i) ++ sepLit ++ [105, 110, 116, 54, 52]).isEmpty = false := by simp
  have h2 : ((dq :: fmtInt i) ++ sepLit ++ [105, 110, 116, 54, 52]).head? = some dq := by simp
  have h3 : ¬ ((fmtInt i).length + 1 < 1) := by omega
  simp only [h1, h2, h3, Bool.false_eq_true, if_false, bne_self_eq_false]
  have e1 : (([105, 110, 116, 54, 52] : Bytes) == [98, 111, 111, 108]) = false := by decide
  have e2 : (([105, 110, 116, 54, 52] : Bytes) == [105, 110, 116, 54, 52]) = true := by decide
  simp only [e1, e2, Bool.false_eq_true, if_false, if_true, parseInt64_fmtInt i h, Option.map_some]

theorem parseLit_printLit_float (L : Leaf) (hL : LeafLaws L) (b : Nat) : parseLit L (printLit L (.float b)) = some (.float b) := by
  have hcut := parseLit_cut L (L.fmtFloat b) [102, 108, 111, 97, 116, 54, 52] (by decide) (by decide) (by intro c hc; cases hc; decide)
  unfold parseLit
  have hp : printLit L (.float b) = (dq :: L.fmtFloat b) ++ sepLit ++ [102, 108, 111, 97, 116, 54, 52] := by simp [printLit]
  rw [hp]
  simp only [hcut.1, hcut.2.1, hcut.2.2.1, hcut.2.2.2]
  have h1 : ((dq :: L.fmtFloat b) ++ sepLit ++ [102, 108, 111, 97, 116, 54, 52]).isEmpty = false := by simp
  have h2 : ((dq :: L.fmtFloat b) ++ sepLit ++ [102, 108, 111, 97, 116, 54, 52]).head? = some dq := by simp
  have h3 : ¬ ((L.fmtFloat b).length + 1 < 1) := by omega
  simp only [h1, h2, h3, Bool.false_eq_true, if_false, bne_self_eq_false]
  have e1 : (([102, 108, 111, 97, 116, 54, 52] : Bytes) == [98, 111, 111, 108]) = false := by decide
  have e2 : (([102, 108, 111, 97, 116, 54, 52] : Bytes) == [105, 110, 116, 54, 52]) = false := by decide
  have e3 : (([102, 108, 111, 97, 116, 54, 52] : Bytes) == [102, 108, 111, 97, 116, 54, 52]) = true := by decide
  simp only [e1, e2, e3, Bool.false_eq_true, if_false, if_true, hL.float_round, Option.map_some]


/-! ### The reader -/

def nonblank (ls : List Bytes) : List Bytes := ls.filter fun l => !(trim l).isEmpty

/-- `ReadIntoGraph` loads exactly the triples of the lines before the first malformed line, reports
    their number, and reports an error iff there is a malformed line. -/
theorem readLines_spec (L : Leaf) (ls : List Bytes) :
    (readLines L ls).1 = ((nonblank ls).takeWhile fun l => (parseTriple L l).isSome).filterMap (parseTriple L) ∧
    (readLines L ls).2.1 = ((nonblank ls).takeWhile fun l => (parseTriple L l).isSome).length ∧
    (readLines L ls).2.2 = (nonblank ls).any fun l => (parseTriple L l).isNone := by
  induction ls with
  | nil => simp [readLines, nonblank]
  | cons l ls ih =>
    unfold readLines
    by_cases hb : (trim l).isEmpty = true
    · simp only [hb, if_true]
      have : nonblank (l :: ls) = nonblank ls := by simp [nonblank, hb]
      rw [this]; exact ih
    · have hb' : (trim l).isEmpty = false := by simpa using hb
      have hnb : nonblank (l :: ls) = l :: nonblank ls := by simp [nonblank, hb']
      simp only [hb', Bool.false_eq_true, if_false]
      rw [hnb]
      cases hp : parseTriple L l with
      | none => simp [hp]
      | some t =>
        simp only [hp, List.takeWhile_cons, Option.isSome_some, if_true, List.filterMap_cons, List.length_cons,
          List.any_cons, Option.isNone_some, Bool.false_or]
        exact ⟨by rw [ih.1], by rw [ih.2.1], ih.2.2⟩

theorem readLines_count (L : Leaf) (ls : List Bytes) : (readLines L ls).2.1 = (readLines L ls).1.length := by
  induction ls with
  | nil => simp [readLines]
  | cons l ls ih =>
    unfold readLines
    split
    · exact ih
    · split
      · rfl
      · simp [ih]

end BW.Proofs.Text
