/-
Round trips and reader behaviour of the text forms (C05, C15), on the structural model of
BW/Model/Text.lean, under the laws of the leaf codecs (`LeafLaws`).
-/
import BW.Model.Text

set_option linter.unusedSimpArgs false
set_option linter.unnecessarySimpa false
set_option linter.unusedVariables false

namespace BW.Proofs.Text
open BW.Model BW.Model.Text


theorem lastIndexOf_none_of_head_absent (p : UInt8) (ptail s : Bytes) (h : p ∉ s) : lastIndexOf (p :: ptail) s = none := by
  induction s with
  | nil => simp [lastIndexOf]
  | cons c cs ih =>
    simp only [List.mem_cons, not_or] at h
    have hpre : (p :: ptail).isPrefixOf (c :: cs) = false := by
      simp only [List.isPrefixOf, Bool.and_eq_false_iff]
      left
      simp only [beq_eq_false_iff_ne, ne_eq]
      exact h.1
    simp only [lastIndexOf, ih h.2, hpre]
    rfl

theorem lastIndexOf_append (p : UInt8) (ptail a b : Bytes) (h : p ∉ ptail ++ b) :
    lastIndexOf (p :: ptail) (a ++ (p :: ptail) ++ b) = some a.length := by
  induction a with
  | nil =>
    have hpre : (p :: ptail).isPrefixOf (p :: (ptail ++ b)) = true := by
      simp only [List.isPrefixOf, beq_self_eq_true, Bool.true_and]
      exact List.isPrefixOf_iff_prefix.mpr (List.prefix_append _ _)
    show lastIndexOf (p :: ptail) (p :: (ptail ++ b)) = some 0
    simp only [lastIndexOf, lastIndexOf_none_of_head_absent p ptail (ptail ++ b) h, hpre]
    rfl
  | cons c cs ih =>
    have e : (c :: cs) ++ (p :: ptail) ++ b = c :: (cs ++ (p :: ptail) ++ b) := by simp
    rw [e]
    simp only [lastIndexOf, ih, List.length_cons]
theorem trim_id (s : Bytes) (h1 : ∀ c, s.head? = some c → asciiSpace c = false)
    (h2 : ∀ c, s.getLast? = some c → asciiSpace c = false) : trim s = s := by
  unfold trim
  have e1 : s.dropWhile asciiSpace = s := by
    cases s with
    | nil => rfl
    | cons c cs => simp [List.dropWhile, h1 c rfl]
  rw [e1]
  have e2 : s.reverse.dropWhile asciiSpace = s.reverse := by
    cases hr : s.reverse with
    | nil => rfl
    | cons c cs =>
      have : s.getLast? = some c := by
        rw [List.getLast?_eq_head?_reverse, hr]; rfl
      simp [List.dropWhile, h2 c this]
  rw [e2, List.reverse_reverse]

theorem indexOf_first (c : UInt8) (a b : Bytes) (h : c ∉ a) : indexOf [c] (a ++ c :: b) = some a.length := by
  induction a with
  | nil => simp [indexOf, List.isPrefixOf]
  | cons x xs ih =>
    simp only [List.mem_cons, not_or] at h
    have hpre : [c].isPrefixOf (x :: (xs ++ c :: b)) = false := by
      simp only [List.isPrefixOf, Bool.and_true, beq_eq_false_iff_ne, ne_eq]
      exact h.1
    simp only [List.cons_append, indexOf, hpre, ih h.2, List.length_cons]
    rfl

theorem take_left' (A B : Bytes) : (A ++ B).take A.length = A := by
  induction A with
  | nil => simp
  | cons a A ih => simp [ih]

theorem drop_mid (A B : Bytes) (x : UInt8) : (A ++ x :: B).drop (A.length + 1) = B := by
  induction A with
  | nil => simp
  | cons a A ih => simpa using ih

structure NodeOK (n : Node) : Prop where
  ty : validType n.ty = true
  tyNoLt : lt ∉ n.ty
  id : validID n.id = true

theorem parseNode_printNode (n : Node) (h : NodeOK n) : parseNode (printNode n) = some n := by
  obtain ⟨ty, id⟩ := n
  have hty := h.ty
  have hid := h.id
  have hnl := h.tyNoLt
  simp only at hty hid hnl
  have hhead : ty.head? = some slash := by
    simp only [validType, Bool.and_eq_true, beq_iff_eq] at hty
    exact hty.1.1.1.2
  obtain ⟨trest, rfl⟩ : ∃ r, ty = slash :: r := by
    cases ty with
    | nil => simp at hhead
    | cons c r => simp only [List.head?_cons, Option.some.injEq] at hhead; exact ⟨r, by rw [hhead]⟩
  have hp : printNode ⟨slash :: trest, id⟩ = (slash :: trest) ++ lt :: (id ++ [gt]) := by
    simp [printNode]
  have hlastP : ((slash :: trest) ++ lt :: (id ++ [gt])).getLast? = some gt := by
    rw [List.getLast?_eq_head?_reverse]; simp
  have htrim : trim ((slash :: trest) ++ lt :: (id ++ [gt])) = (slash :: trest) ++ lt :: (id ++ [gt]) := by
    apply trim_id
    · intro c hc; simp only [List.cons_append, List.head?_cons, Option.some.injEq] at hc; subst hc; decide
    · intro c hc; rw [hlastP] at hc; cases hc; decide
  unfold parseNode
  rw [hp]
  simp only [htrim]
  have hlen : ¬ ((slash :: trest) ++ lt :: (id ++ [gt])).length < 2 := by simp; omega
  simp only [hlen, if_false]
  have hidx : indexOf [lt] ((slash :: trest) ++ lt :: (id ++ [gt])) = some (slash :: trest).length :=
    indexOf_first lt (slash :: trest) (id ++ [gt]) hnl
  have hcons : (slash :: trest) ++ lt :: (id ++ [gt]) = slash :: (trest ++ lt :: (id ++ [gt])) := rfl
  rw [hcons]
  simp only [beq_self_eq_true, if_true]
  rw [← hcons, hidx]
  simp only
  have htake : ((slash :: trest) ++ lt :: (id ++ [gt])).take (slash :: trest).length = slash :: trest := by
    exact take_left' _ _
  rw [htake, hty, hlastP]
  simp only [Bool.not_true, Bool.false_eq_true, if_false, bne_self_eq_false]
  have hdrop : (((slash :: trest) ++ lt :: (id ++ [gt])).drop ((slash :: trest).length + 1)).take
      (((slash :: trest) ++ lt :: (id ++ [gt])).length - 1 - ((slash :: trest).length + 1)) = id := by
    have e : ((slash :: trest) ++ lt :: (id ++ [gt])).drop ((slash :: trest).length + 1) = id ++ [gt] := by
      exact drop_mid _ _ _
    rw [e]
    have : ((slash :: trest) ++ lt :: (id ++ [gt])).length - 1 - ((slash :: trest).length + 1) = id.length := by
      simp; omega
    rw [this]
    simp
  rw [hdrop, hid]
  simp

structure LeafLaws (L : Leaf) : Prop where
  unq_quote : ∀ i, L.unquote (L.quote i) = some i
  quote_shape : ∀ i, ∃ body, L.quote i = dq :: (body ++ [dq])
  /-- printing then parsing gives the time back — for the instants the format can write (`10000-01-01T…` is printed
      but not read: the law without this condition is false of Go, and the real code fails there) -/
  time_round : ∀ t, L.timeOK t = true → L.parseTime (L.fmtTime t) = some t
  /-- … and the parser yields only such instants -/
  time_parsed_ok : ∀ s t, L.parseTime s = some t → L.timeOK t = true
  time_noDq : ∀ t, dq ∉ L.fmtTime t
  time_nonempty : ∀ t, L.fmtTime t ≠ []
  /-- printing then parsing a float64 gives its bits back — for the bit patterns a literal holds: every NaN prints as
      `NaN` and parses to one of them, so the law without this condition is false of Go; the real code failed there
      (a literal built from another NaN changed its UUID in a round trip) until `Build` kept one NaN (c010ae5) -/
  float_round : ∀ b, L.floatOK b = true → L.parseFloat (L.fmtFloat b) = some b
  float_parsed_ok : ∀ s b, L.parseFloat s = some b → L.floatOK b = true
  float_noDq : ∀ b, dq ∉ L.fmtFloat b

theorem getLast?_append_singleton (A : Bytes) (x : UInt8) : (A ++ [x]).getLast? = some x := by
  rw [List.getLast?_eq_head?_reverse]; simp

theorem drop_left' (A B : Bytes) : (A ++ B).drop A.length = B := by
  induction A with
  | nil => simp
  | cons a A ih => simpa using ih

/-- A predicate whose anchor the text format can write. -/
def PredOK (L : Leaf) : Pred → Prop
  | .imm _ => True
  | .tmp _ t => L.timeOK t = true

theorem parsePred_printPred (L : Leaf) (hL : LeafLaws L) (p : Pred) (hp : PredOK L p) : parsePred L (printPred L p) = some p := by
  cases p with
  | imm i =>
    obtain ⟨body, hq⟩ := hL.quote_shape i
    have hraw : printPred L (.imm i) = (dq :: body) ++ sepPred ++ [rb] := by
      simp [printPred, hq, sepPred]
    have htrim : trim ((dq :: body) ++ sepPred ++ [rb]) = (dq :: body) ++ sepPred ++ [rb] := by
      apply trim_id
      · intro c hc; simp only [List.cons_append, List.head?_cons, Option.some.injEq] at hc; subst hc; decide
      · intro c hc; rw [getLast?_append_singleton] at hc; cases hc; decide
    have hidx : lastIndexOf sepPred ((dq :: body) ++ sepPred ++ [rb]) = some (dq :: body).length :=
      lastIndexOf_append dq [64, 91] (dq :: body) [rb] (by decide)
    unfold parsePred
    rw [hraw]
    simp only [htrim]
    have hne : ((dq :: body) ++ sepPred ++ [rb]).isEmpty = false := by simp
    have hhead : ((dq :: body) ++ sepPred ++ [rb]).head? = some dq := by simp
    simp only [hne, Bool.false_eq_true, if_false, hhead, bne_self_eq_false, hidx, getLast?_append_singleton]
    have htake : ((dq :: body) ++ sepPred ++ [rb]).take ((dq :: body).length + 1) = L.quote i := by
      rw [hq]
      have : (dq :: body) ++ sepPred ++ [rb] = ((dq :: body) ++ [dq]) ++ ([64, 91] ++ [rb]) := by simp [sepPred]
      rw [this]
      have hl : (dq :: body).length + 1 = ((dq :: body) ++ [dq]).length := by simp
      rw [hl, take_left']
      simp
    rw [htake, hL.unq_quote]
    simp only
    have hta : (((dq :: body) ++ sepPred ++ [rb]).drop ((dq :: body).length + 3)).take
        (((dq :: body) ++ sepPred ++ [rb]).length - 1 - ((dq :: body).length + 3)) = [] := by
      have : ((dq :: body) ++ sepPred ++ [rb]).length - 1 - ((dq :: body).length + 3) = 0 := by simp [sepPred]
      rw [this]; simp
    rw [hta]
    simp
  | tmp i t =>
    obtain ⟨body, hq⟩ := hL.quote_shape i
    have hft := hL.time_noDq t
    have hraw : printPred L (.tmp i t) = (dq :: body) ++ sepPred ++ (L.fmtTime t ++ [rb]) := by
      simp [printPred, hq, sepPred]
    have hlast : ((dq :: body) ++ sepPred ++ (L.fmtTime t ++ [rb])).getLast? = some rb := by
      rw [← List.append_assoc]; exact getLast?_append_singleton _ _
    have htrim : trim ((dq :: body) ++ sepPred ++ (L.fmtTime t ++ [rb])) = (dq :: body) ++ sepPred ++ (L.fmtTime t ++ [rb]) := by
      apply trim_id
      · intro c hc; simp only [List.cons_append, List.head?_cons, Option.some.injEq] at hc; subst hc; decide
      · intro c hc; rw [hlast] at hc; cases hc; decide
    have hidx : lastIndexOf sepPred ((dq :: body) ++ sepPred ++ (L.fmtTime t ++ [rb])) = some (dq :: body).length := by
      apply lastIndexOf_append dq [64, 91] (dq :: body) (L.fmtTime t ++ [rb])
      simp only [List.mem_append, List.mem_cons, List.mem_nil_iff, or_false, not_or]
      exact ⟨⟨by decide, by decide⟩, hft, by decide⟩
    unfold parsePred
    rw [hraw]
    simp only [htrim]
    have hne : ((dq :: body) ++ sepPred ++ (L.fmtTime t ++ [rb])).isEmpty = false := by simp
    have hhead : ((dq :: body) ++ sepPred ++ (L.fmtTime t ++ [rb])).head? = some dq := by simp
    simp only [hne, Bool.false_eq_true, if_false, hhead, bne_self_eq_false, hidx, hlast]
    have htake : ((dq :: body) ++ sepPred ++ (L.fmtTime t ++ [rb])).take ((dq :: body).length + 1) = L.quote i := by
      rw [hq]
      have : (dq :: body) ++ sepPred ++ (L.fmtTime t ++ [rb]) = ((dq :: body) ++ [dq]) ++ ([64, 91] ++ (L.fmtTime t ++ [rb])) := by simp [sepPred]
      rw [this]
      have hl : (dq :: body).length + 1 = ((dq :: body) ++ [dq]).length := by simp
      rw [hl, take_left']
      simp
    rw [htake, hL.unq_quote]
    simp only
    have hta : (((dq :: body) ++ sepPred ++ (L.fmtTime t ++ [rb])).drop ((dq :: body).length + 3)).take
        (((dq :: body) ++ sepPred ++ (L.fmtTime t ++ [rb])).length - 1 - ((dq :: body).length + 3)) = L.fmtTime t := by
      have e1 : ((dq :: body) ++ sepPred ++ (L.fmtTime t ++ [rb])).drop ((dq :: body).length + 3) = L.fmtTime t ++ [rb] := by
        have hl : (dq :: body).length + 3 = ((dq :: body) ++ sepPred).length := by simp [sepPred]
        rw [hl, drop_left']
      have e2 : ((dq :: body) ++ sepPred ++ (L.fmtTime t ++ [rb])).length - 1 - ((dq :: body).length + 3) = (L.fmtTime t).length := by
        simp [sepPred]; omega
      rw [e1, e2, take_left']
    rw [hta]
    have hne2 : (L.fmtTime t).isEmpty = false := by
      cases h : L.fmtTime t with
      | nil => exact absurd h (hL.time_nonempty t)
      | cons _ _ => rfl
    have hnq : ((L.fmtTime t).head? == some dq) = false := by
      cases h : L.fmtTime t with
      | nil => rfl
      | cons c cs =>
        rw [h] at hft
        simp only [List.mem_cons, not_or] at hft
        simp only [List.head?_cons, beq_eq_false_iff_ne, ne_eq, Option.some.injEq]
        exact fun e => hft.1 e.symm
    simp only [hne2, Bool.false_eq_true, if_false, hnq, Bool.and_false, Bool.false_and, hL.time_round t hp, Option.map_some]

/-! ### Literals -/

theorem digit_back : ∀ d : Fin 10, (UInt8.ofNat (48 + d.val)).toNat - 48 = d.val ∧ isDigit (UInt8.ofNat (48 + d.val)) = true := by decide

theorem natOfDigits_snoc (a : Bytes) (d : UInt8) : natOfDigits (a ++ [d]) = natOfDigits a * 10 + (d.toNat - 48) := by
  simp [natOfDigits, List.foldl_append]

theorem natOfDigits_single (d : UInt8) : natOfDigits [d] = d.toNat - 48 := by
  simp only [natOfDigits, List.foldl_cons, List.foldl_nil]; omega

theorem digits_spec (n : Nat) : natOfDigits (digits n) = n ∧ (digits n).all isDigit = true ∧ digits n ≠ [] := by
  fun_induction digits n with
  | case1 n h =>
    have := digit_back ⟨n, h⟩
    refine ⟨?_, ?_, List.cons_ne_nil _ _⟩
    · rw [natOfDigits_single]; exact this.1
    · simp only [List.all_cons, List.all_nil, Bool.and_true]; exact this.2
  | case2 n h ih =>
    have hm : n % 10 < 10 := Nat.mod_lt _ (by decide)
    have := digit_back ⟨n % 10, hm⟩
    refine ⟨?_, ?_, ?_⟩
    · have h1 : (UInt8.ofNat (48 + n % 10)).toNat - 48 = n % 10 := this.1
      rw [natOfDigits_snoc, ih.1, h1]; omega
    · rw [List.all_append, ih.2.1]
      simp only [List.all_cons, List.all_nil, Bool.and_true, Bool.true_and]; exact this.2
    · intro e
      have := congrArg List.length e
      simp at this

def IsI64 (i : Int) : Prop := -9223372036854775808 ≤ i ∧ i ≤ 9223372036854775807

theorem digits_head_digit (n : Nat) : ∀ c, (digits n).head? = some c → isDigit c = true := by
  intro c hc
  have h := (digits_spec n).2.1
  cases hd : digits n with
  | nil => rw [hd] at hc; cases hc
  | cons x xs =>
    rw [hd] at hc h
    simp only [List.head?_cons, Option.some.injEq] at hc
    simp only [List.all_cons, Bool.and_eq_true] at h
    rw [← hc]; exact h.1

theorem parseInt64_fmtInt (i : Int) (h : IsI64 i) : parseInt64 (fmtInt i) = some i := by
  unfold fmtInt
  by_cases hn : i < 0
  · simp only [hn, if_true]
    obtain ⟨h1, h2, h3⟩ := digits_spec i.natAbs
    unfold parseInt64
    have he : (digits i.natAbs).isEmpty = false := by
      cases hd : digits i.natAbs with
      | nil => exact absurd hd h3
      | cons _ _ => rfl
    simp only [List.head?_cons, beq_self_eq_true, Bool.true_or, if_true, List.drop_succ_cons, List.drop_zero,
      he, h2, Bool.not_true, Bool.or_false, Bool.false_eq_true, if_false, h1]
    have hb : i.natAbs ≤ 9223372036854775808 := by
      have := h.1; omega
    simp only [hb, if_true, Option.some.injEq]
    omega
  · simp only [hn, if_false]
    obtain ⟨h1, h2, h3⟩ := digits_spec i.toNat
    have hhd := digits_head_digit i.toNat
    have hnot : ((digits i.toNat).head? == some 45 || (digits i.toNat).head? == some 43) = false := by
      cases hd : (digits i.toNat).head? with
      | none => rfl
      | some c =>
        have hc := hhd c hd
        have hne45 : c ≠ 45 := by intro e; rw [e] at hc; revert hc; decide
        have hne43 : c ≠ 43 := by intro e; rw [e] at hc; revert hc; decide
        simp [hne45, hne43]
    have hneg : ((digits i.toNat).head? == some 45) = false := by
      simp only [Bool.or_eq_false_iff] at hnot; exact hnot.1
    unfold parseInt64
    have he : (digits i.toNat).isEmpty = false := by
      cases hd : digits i.toNat with
      | nil => exact absurd hd h3
      | cons _ _ => rfl
    have h43 : ((digits i.toNat).head? == some 43) = false := by
      simp only [Bool.or_eq_false_iff] at hnot; exact hnot.2
    simp only [hneg, h43, Bool.or_self, Bool.false_eq_true, if_false, he, h2, Bool.not_true, Bool.or_false, h1]
    have hb : i.toNat ≤ 9223372036854775807 := by
      have := h.2; omega
    simp only [hb, if_true, Option.some.injEq]
    omega

/-- The shape every printed literal has, and how `parseLit` cuts it. -/
theorem parseLit_cut (L : Leaf) (v tname : Bytes) (hd : dq ∉ tname) (hne : tname ≠ [])
    (hlast : ∀ c, tname.getLast? = some c → asciiSpace c = false) :
    trim ((dq :: v) ++ sepLit ++ tname) = (dq :: v) ++ sepLit ++ tname ∧
    lastIndexOf sepLit ((dq :: v) ++ sepLit ++ tname) = some (v.length + 1) ∧
    ((((dq :: v) ++ sepLit ++ tname).take (v.length + 1)).drop 1) = v ∧
    (((dq :: v) ++ sepLit ++ tname).drop (v.length + 1 + sepLit.length)) = tname := by
  refine ⟨?_, ?_, ?_, ?_⟩
  · apply trim_id
    · intro c hc; simp only [List.cons_append, List.head?_cons, Option.some.injEq] at hc; subst hc; decide
    · intro c hc
      have : ((dq :: v) ++ sepLit ++ tname).getLast? = tname.getLast? := by
        rw [List.getLast?_eq_head?_reverse, List.getLast?_eq_head?_reverse, List.reverse_append]
        cases hr : tname.reverse with
        | nil => exact absurd (List.reverse_eq_nil_iff.mp hr) hne
        | cons x xs => simp
      rw [this] at hc
      exact hlast c hc
  · have := lastIndexOf_append dq [94, 94, 116, 121, 112, 101, 58] (dq :: v) tname (by
      simp only [List.mem_append, not_or]; exact ⟨by decide, hd⟩)
    simpa [sepLit] using this
  · have : (dq :: v) ++ sepLit ++ tname = (dq :: v) ++ (sepLit ++ tname) := by simp
    rw [this]
    have hl : v.length + 1 = (dq :: v).length := by simp
    rw [hl, take_left']
    simp
  · have hl : v.length + 1 + sepLit.length = ((dq :: v) ++ sepLit).length := by simp; omega
    rw [hl, drop_left']

theorem parseLit_printLit_bool (L : Leaf) (b : Bool) : parseLit L (printLit L (.bool b)) = some (.bool b) := by
  have hcut := parseLit_cut L (if b then trueBytes else falseBytes) [98, 111, 111, 108] (by decide) (by decide) (by intro c hc; cases hc; decide)
  unfold parseLit
  have hp : printLit L (.bool b) = (dq :: (if b then trueBytes else falseBytes)) ++ sepLit ++ [98, 111, 111, 108] := by
    simp [printLit]
  rw [hp]
  simp only [hcut.1, hcut.2.1, hcut.2.2.1, hcut.2.2.2]
  have h1 : ((dq :: (if b then trueBytes else falseBytes)) ++ sepLit ++ [98, 111, 111, 108]).isEmpty = false := by simp
  have h2 : ((dq :: (if b then trueBytes else falseBytes)) ++ sepLit ++ [98, 111, 111, 108]).head? = some dq := by simp
  have h3 : ¬ ((if b then trueBytes else falseBytes).length + 1 < 1) := by omega
  simp only [h1, h2, h3, Bool.false_eq_true, if_false, bne_self_eq_false]
  have e1 : (([98, 111, 111, 108] : Bytes) == [98, 111, 111, 108]) = true := by decide
  simp only [e1, if_true]
  cases b <;> decide

theorem parseLit_printLit_text (L : Leaf) (t : Bytes) : parseLit L (printLit L (.text t)) = some (.text t) := by
  have hcut := parseLit_cut L t [116, 101, 120, 116] (by decide) (by decide) (by intro c hc; cases hc; decide)
  unfold parseLit
  have hp : printLit L (.text t) = (dq :: t) ++ sepLit ++ [116, 101, 120, 116] := by simp [printLit]
  rw [hp]
  simp only [hcut.1, hcut.2.1, hcut.2.2.1, hcut.2.2.2]
  have h1 : ((dq :: t) ++ sepLit ++ [116, 101, 120, 116]).isEmpty = false := by simp
  have h2 : ((dq :: t) ++ sepLit ++ [116, 101, 120, 116]).head? = some dq := by simp
  have h3 : ¬ (t.length + 1 < 1) := by omega
  simp only [h1, h2, h3, Bool.false_eq_true, if_false, bne_self_eq_false]
  have e1 : (([116, 101, 120, 116] : Bytes) == [98, 111, 111, 108]) = false := by decide
  have e2 : (([116, 101, 120, 116] : Bytes) == [105, 110, 116, 54, 52]) = false := by decide
  have e3 : (([116, 101, 120, 116] : Bytes) == [102, 108, 111, 97, 116, 54, 52]) = false := by decide
  have e4 : (([116, 101, 120, 116] : Bytes) == [116, 101, 120, 116]) = true := by decide
  simp only [e1, e2, e3, e4, Bool.false_eq_true, if_false, if_true]

theorem parseLit_printLit_int (L : Leaf) (i : Int) (h : IsI64 i) : parseLit L (printLit L (.int i)) = some (.int i) := by
  have hcut := parseLit_cut L (fmtInt i) [105, 110, 116, 54, 52] (by decide) (by decide) (by intro c hc; cases hc; decide)
  unfold parseLit
  have hp : printLit L (.int i) = (dq :: fmtInt i) ++ sepLit ++ [105, 110, 116, 54, 52] := by simp [printLit]
  rw [hp]
  simp only [hcut.1, hcut.2.1, hcut.2.2.1, hcut.2.2.2]
  have h1 : ((dq :: fmtInt i) ++ sepLit ++ [105, 110, 116, 54, 52]).isEmpty = false := by simp
  have h2 : ((dq :: fmtInt i) ++ sepLit ++ [105, 110, 116, 54, 52]).head? = some dq := by simp
  have h3 : ¬ ((fmtInt i).length + 1 < 1) := by omega
  simp only [h1, h2, h3, Bool.false_eq_true, if_false, bne_self_eq_false]
  have e1 : (([105, 110, 116, 54, 52] : Bytes) == [98, 111, 111, 108]) = false := by decide
  have e2 : (([105, 110, 116, 54, 52] : Bytes) == [105, 110, 116, 54, 52]) = true := by decide
  simp only [e1, e2, Bool.false_eq_true, if_false, if_true, parseInt64_fmtInt i h, Option.map_some]

theorem parseLit_printLit_float (L : Leaf) (hL : LeafLaws L) (b : Nat) (hb : L.floatOK b = true) : parseLit L (printLit L (.float b)) = some (.float b) := by
  have hcut := parseLit_cut L (L.fmtFloat b) [102, 108, 111, 97, 116, 54, 52] (by decide) (by decide) (by intro c hc; cases hc; decide)
  unfold parseLit
  have hp : printLit L (.float b) = (dq :: L.fmtFloat b) ++ sepLit ++ [102, 108, 111, 97, 116, 54, 52] := by simp [printLit]
  rw [hp]
  simp only [hcut.1, hcut.2.1, hcut.2.2.1, hcut.2.2.2]
  have h1 : ((dq :: L.fmtFloat b) ++ sepLit ++ [102, 108, 111, 97, 116, 54, 52]).isEmpty = false := by simp
  have h2 : ((dq :: L.fmtFloat b) ++ sepLit ++ [102, 108, 111, 97, 116, 54, 52]).head? = some dq := by simp
  have h3 : ¬ ((L.fmtFloat b).length + 1 < 1) := by omega
  simp only [h1, h2, h3, Bool.false_eq_true, if_false, bne_self_eq_false]
  have e1 : (([102, 108, 111, 97, 116, 54, 52] : Bytes) == [98, 111, 111, 108]) = false := by decide
  have e2 : (([102, 108, 111, 97, 116, 54, 52] : Bytes) == [105, 110, 116, 54, 52]) = false := by decide
  have e3 : (([102, 108, 111, 97, 116, 54, 52] : Bytes) == [102, 108, 111, 97, 116, 54, 52]) = true := by decide
  simp only [e1, e2, e3, Bool.false_eq_true, if_false, if_true, hL.float_round b hb, Option.map_some]


/-! ### The reader -/

def nonblank (ls : List Bytes) : List Bytes := ls.filter fun l => !(trim l).isEmpty

/-- `ReadIntoGraph` loads exactly the triples of the lines before the first malformed line, reports
    their number, and reports an error iff there is a malformed line. -/
theorem readLines_spec (L : Leaf) (ls : List Bytes) :
    (readLines L ls).1 = ((nonblank ls).takeWhile fun l => (parseTriple L l).isSome).filterMap (parseTriple L) ∧
    (readLines L ls).2.1 = ((nonblank ls).takeWhile fun l => (parseTriple L l).isSome).length ∧
    (readLines L ls).2.2 = (nonblank ls).any fun l => (parseTriple L l).isNone := by
  induction ls with
  | nil => simp [readLines, nonblank]
  | cons l ls ih =>
    unfold readLines
    by_cases hb : (trim l).isEmpty = true
    · simp only [hb, if_true]
      have : nonblank (l :: ls) = nonblank ls := by simp [nonblank, hb]
      rw [this]; exact ih
    · have hb' : (trim l).isEmpty = false := by simpa using hb
      have hnb : nonblank (l :: ls) = l :: nonblank ls := by simp [nonblank, hb']
      simp only [hb', Bool.false_eq_true, if_false]
      rw [hnb]
      cases hp : parseTriple L l with
      | none => simp [hp]
      | some t =>
        simp only [hp, List.takeWhile_cons, Option.isSome_some, if_true, List.filterMap_cons, List.length_cons,
          List.any_cons, Option.isNone_some, Bool.false_or]
        exact ⟨by rw [ih.1], by rw [ih.2.1], ih.2.2⟩

theorem readLines_count (L : Leaf) (ls : List Bytes) : (readLines L ls).2.1 = (readLines L ls).1.length := by
  induction ls with
  | nil => simp [readLines]
  | cons l ls ih =>
    unfold readLines
    split
    · exact ih
    · split
      · rfl
      · simp [ih]


theorem takeWhile_prefix (ws rest : Bytes) (y : UInt8) (hws : ∀ c ∈ ws, reSpace c = true) (hy : reSpace y = false) :
    (ws ++ y :: rest).takeWhile reSpace = ws := by
  induction ws with
  | nil => simp [List.takeWhile, hy]
  | cons w ws ih =>
    have hw : reSpace w = true := hws w (by simp)
    simp only [List.cons_append, List.takeWhile, hw]
    rw [ih (fun c hc => hws c (List.mem_cons_of_mem _ hc))]

/-- First match of `c \s+ y` when nothing before it is white space. -/
theorem findSplit_first (c y : UInt8) (nexts : List UInt8) (a ws rest : Bytes) (pos : Nat)
    (ha : ∀ x ∈ a, reSpace x = false) (hc : reSpace c = false)
    (hws : ∀ x ∈ ws, reSpace x = true) (hne : ws ≠ []) (hy : reSpace y = false) (hyn : nexts.contains y = true) :
    findSplit c nexts (a ++ c :: (ws ++ y :: rest)) pos = some (pos + a.length, pos + a.length + 1 + ws.length + 1) := by
  induction a generalizing pos with
  | nil =>
    simp only [List.nil_append, findSplit, beq_self_eq_true, if_true, takeWhile_prefix ws rest y hws hy, List.length_nil, Nat.add_zero]
    have hd : (ws ++ y :: rest).drop ws.length = y :: rest := drop_left' ws (y :: rest)
    rw [hd]
    have hl : decide (ws.length ≥ 1) = true := by
      cases ws with
      | nil => exact absurd rfl hne
      | cons _ _ => simp
    simp only [hl, hyn, Bool.and_self, if_true]
  | cons x xs ih =>
    have hx : reSpace x = false := ha x (by simp)
    have hxs : ∀ z ∈ xs, reSpace z = false := fun z hz => ha z (List.mem_cons_of_mem _ hz)
    simp only [List.cons_append, findSplit]
    have hrec := ih (pos + 1) hxs
    have hlen : pos + 1 + xs.length = pos + (x :: xs).length := by simp; omega
    by_cases hxc : (x == c) = true
    · simp only [hxc, if_true]
      -- what follows `x` starts with something that is not white space
      have hhead : (xs ++ c :: (ws ++ y :: rest)).takeWhile reSpace = [] := by
        cases xs with
        | nil => simp [List.takeWhile, hc]
        | cons z zs => simp [List.takeWhile, hxs z (by simp)]
      rw [hhead]
      simp only [List.length_nil, List.drop_zero]
      cases hxx : xs ++ c :: (ws ++ y :: rest) with
      | nil => simp at hxx
      | cons q qs =>
        rw [hxx] at hrec
        have hz : (decide (0 ≥ 1) && nexts.contains q) = false := by simp
        simp only [hz, Bool.false_eq_true, if_false, hrec, List.length_cons, Option.some.injEq, Prod.mk.injEq]
        constructor <;> omega
    · simp only [hxc, Bool.false_eq_true, if_false]
      rw [hrec]
      simp only [List.length_cons, Option.some.injEq, Prod.mk.injEq]
      constructor <;> omega

/-! ### More laws: printed predicates contain no white space (IDs of the documented domain have none) -/

structure LeafLaws2 (L : Leaf) : Prop extends LeafLaws L where
  quote_noSpace : ∀ i, (∀ c ∈ i, reSpace c = false) → ∀ c ∈ L.quote i, reSpace c = false
  time_noSpace : ∀ t, ∀ c ∈ L.fmtTime t, reSpace c = false

def noSpace (s : Bytes) : Prop := ∀ c ∈ s, reSpace c = false

theorem getLast?_drop (l : Bytes) (n : Nat) (h : l.drop n ≠ []) : (l.drop n).getLast? = l.getLast? := by
  induction l generalizing n with
  | nil => simp at h
  | cons x xs ih =>
    cases n with
    | zero => rfl
    | succ n =>
      simp only [List.drop_succ_cons] at h ⊢
      rw [ih n h]
      cases xs with
      | nil => simp at h
      | cons y ys => simp [List.getLast?_cons_cons]

/-- A text that ends with ']' is never a literal. -/
theorem parseLit_none_of_last_rb (L : Leaf) (s : Bytes) (ht : trim s = s) (hl : s.getLast? = some rb) : parseLit L s = none := by
  unfold parseLit
  simp only [ht]
  split
  · rfl
  · split
    · rfl
    · split
      · rfl
      · rename_i idx hidx
        split
        · rfl
        · -- the text after the separator is a suffix of s: empty, or ending with ']'
          have key : ∀ name : Bytes, name ≠ [] → name.getLast? ≠ some rb → (s.drop (idx + sepLit.length) == name) = false := by
            intro name hne hlast
            simp only [beq_eq_false_iff_ne, ne_eq]
            intro e
            have hd : s.drop (idx + sepLit.length) ≠ [] := by rw [e]; exact hne
            have := getLast?_drop s (idx + sepLit.length) hd
            rw [e, hl] at this
            exact hlast this
          have k1 := key [98, 111, 111, 108] (by decide) (by decide)
          have k2 := key [105, 110, 116, 54, 52] (by decide) (by decide)
          have k3 := key [102, 108, 111, 97, 116, 54, 52] (by decide) (by decide)
          have k4 := key [116, 101, 120, 116] (by decide) (by decide)
          have k5 := key [98, 108, 111, 98] (by decide) (by decide)
          simp only [k1, k2, k3, k4, k5, Bool.false_eq_true, if_false]

/-- A text that starts with '"' is never a node. -/
theorem parseNode_none_of_head_dq (s : Bytes) (ht : trim s = s) (hh : s.head? = some dq) : parseNode s = none := by
  unfold parseNode
  simp only [ht]
  split
  · rfl
  · cases s with
    | nil => simp at hh
    | cons c cs =>
      simp only [List.head?_cons, Option.some.injEq] at hh
      subst hh
      have h1 : (dq == slash) = false := by decide
      have h2 : (dq == underscore) = false := by decide
      simp only [h1, h2, Bool.false_eq_true, if_false]

/-- Shape of a printed predicate: a quote, no white space inside, a closing bracket. -/
theorem printPred_shape (L : Leaf) (hL : LeafLaws2 L) (p : Pred) (hid : noSpace p.id) :
    ∃ body, printPred L p = dq :: (body ++ [rb]) ∧ noSpace (dq :: body) := by
  cases p with
  | imm i =>
    obtain ⟨b, hq⟩ := hL.quote_shape i
    have hns := hL.quote_noSpace i hid
    refine ⟨b ++ [dq] ++ [64, 91], ?_, ?_⟩
    · simp [printPred, hq]
    · intro c hc
      simp only [List.mem_cons, List.mem_append, List.mem_nil_iff, or_false] at hc
      rcases hc with rfl | (hc | rfl) | rfl | rfl
      · decide
      · exact hns c (by rw [hq]; simp [hc])
      · decide
      · decide
      · decide
  | tmp i t =>
    obtain ⟨b, hq⟩ := hL.quote_shape i
    have hns := hL.quote_noSpace i hid
    have hts := hL.time_noSpace t
    refine ⟨b ++ [dq] ++ [64, 91] ++ L.fmtTime t, ?_, ?_⟩
    · simp [printPred, hq]
    · intro c hc
      simp only [List.mem_cons, List.mem_append, List.mem_nil_iff, or_false] at hc
      rcases hc with rfl | ((hc | rfl) | rfl | rfl) | hc
      · decide
      · exact hns c (by rw [hq]; simp [hc])
      · decide
      · decide
      · decide
      · exact hts c hc

/-! ### Splitting at a separator -/

theorem splitOn_cons_sep (sep : UInt8) (b : Bytes) : splitOn sep (sep :: b) = [] :: splitOn sep b := by
  simp [splitOn]

theorem splitOn_ne_nil (sep : UInt8) (b : Bytes) : splitOn sep b ≠ [] := by
  induction b with
  | nil => simp [splitOn]
  | cons c cs ih =>
    simp only [splitOn, List.foldr_cons] at ih ⊢
    split
    · simp
    · split <;> simp

theorem splitOn_cons_other (sep c : UInt8) (b : Bytes) (h : (c == sep) = false) :
    splitOn sep (c :: b) = (c :: (splitOn sep b).headD []) :: (splitOn sep b).tail := by
  have hne := splitOn_ne_nil sep b
  simp only [splitOn, List.foldr_cons, h, Bool.false_eq_true, if_false] at hne ⊢
  cases hs : List.foldr (fun c acc => if (c == sep) = true then [] :: acc else
      match acc with
      | [] => [[c]]
      | a :: rest => (c :: a) :: rest) [[]] b with
  | nil => exact absurd hs hne
  | cons a rest => simp

theorem splitOn_append_sep (sep : UInt8) (a b : Bytes) (h : sep ∉ a) : splitOn sep (a ++ sep :: b) = a :: splitOn sep b := by
  induction a with
  | nil => exact splitOn_cons_sep sep b
  | cons c cs ih =>
    simp only [List.mem_cons, not_or] at h
    have hc : (c == sep) = false := by simp only [beq_eq_false_iff_ne, ne_eq]; exact fun e => h.1 e.symm
    rw [List.cons_append, splitOn_cons_other sep c _ hc, ih h.2]
    simp

/-! ### Blobs -/

theorem splitOn_no_sep (sep : UInt8) (a : Bytes) (h : sep ∉ a) : splitOn sep a = [a] := by
  induction a with
  | nil => simp [splitOn]
  | cons c cs ih =>
    simp only [List.mem_cons, not_or] at h
    have hc : (c == sep) = false := by simp only [beq_eq_false_iff_ne, ne_eq]; exact fun e => h.1 e.symm
    rw [splitOn_cons_other sep c _ hc, ih h.2]
    simp

theorem intercalate_cons_cons (sep x y : Bytes) (rest : List Bytes) :
    List.intercalate sep (x :: y :: rest) = x ++ sep ++ List.intercalate sep (y :: rest) := by
  simp [List.intercalate, List.intersperse]

theorem splitOn_intercalate (ds : List Bytes) (hne : ds ≠ []) (h : ∀ d ∈ ds, (32 : UInt8) ∉ d) :
    splitOn 32 (List.intercalate [32] ds) = ds := by
  induction ds with
  | nil => exact absurd rfl hne
  | cons d rest ih =>
    cases rest with
    | nil =>
      have : List.intercalate [32] [d] = d := by simp [List.intercalate, List.intersperse]
      rw [this, splitOn_no_sep 32 d (h d (by simp))]
    | cons y ys =>
      rw [intercalate_cons_cons]
      have e : d ++ [32] ++ List.intercalate [32] (y :: ys) = d ++ 32 :: List.intercalate [32] (y :: ys) := by simp
      rw [e, splitOn_append_sep 32 _ _ (h d (by simp)), ih (by simp) (fun x hx => h x (List.mem_cons_of_mem _ hx))]

theorem digits_no_space (n : Nat) : (32 : UInt8) ∉ digits n := by
  intro hm
  have := (digits_spec n).2.1
  rw [List.all_eq_true] at this
  have := this 32 hm
  revert this; decide

theorem parseByte_digits (x : UInt8) : parseByte (digits x.toNat) = some x := by
  obtain ⟨h1, h2, h3⟩ := digits_spec x.toNat
  unfold parseByte
  have he : (digits x.toNat).isEmpty = false := by
    cases hd : digits x.toNat with
    | nil => exact absurd hd h3
    | cons _ _ => rfl
  have hle : x.toNat ≤ 255 := by have := x.toNat_lt; omega
  simp only [he, h2, Bool.not_true, Bool.or_false, Bool.false_eq_true, if_false, h1, hle, if_true, Option.some.injEq]
  exact UInt8.ofNat_toNat

theorem mapM_parseByte (bs : Bytes) : (bs.map fun x => digits x.toNat).mapM parseByte = some bs := by
  induction bs with
  | nil => rfl
  | cons b bs ih =>
    simp only [List.map_cons, List.mapM_cons, parseByte_digits, ih, bind, Option.bind, pure]

theorem parseLit_printLit_blob (L : Leaf) (bs : Bytes) : parseLit L (printLit L (.blob bs)) = some (.blob bs) := by
  let inner := List.intercalate [32] (bs.map fun x => digits x.toNat)
  have hcut := parseLit_cut L ([91] ++ inner ++ [rb]) [98, 108, 111, 98] (by decide) (by decide) (by intro c hc; cases hc; decide)
  unfold parseLit
  have hp : printLit L (.blob bs) = (dq :: ([91] ++ inner ++ [rb])) ++ sepLit ++ [98, 108, 111, 98] := by simp [printLit, inner]
  rw [hp]
  simp only [hcut.1, hcut.2.1, hcut.2.2.1, hcut.2.2.2]
  have h1 : ((dq :: ([91] ++ inner ++ [rb])) ++ sepLit ++ [98, 108, 111, 98]).isEmpty = false := by simp
  have h2 : ((dq :: ([91] ++ inner ++ [rb])) ++ sepLit ++ [98, 108, 111, 98]).head? = some dq := by simp
  have h3 : ¬ (([91] ++ inner ++ [rb]).length + 1 < 1) := by omega
  simp only [h1, h2, h3, Bool.false_eq_true, if_false, bne_self_eq_false]
  have e1 : (([98, 108, 111, 98] : Bytes) == [98, 111, 111, 108]) = false := by decide
  have e2 : (([98, 108, 111, 98] : Bytes) == [105, 110, 116, 54, 52]) = false := by decide
  have e3 : (([98, 108, 111, 98] : Bytes) == [102, 108, 111, 97, 116, 54, 52]) = false := by decide
  have e4 : (([98, 108, 111, 98] : Bytes) == [116, 101, 120, 116]) = false := by decide
  have e5 : (([98, 108, 111, 98] : Bytes) == [98, 108, 111, 98]) = true := by decide
  simp only [e1, e2, e3, e4, e5, Bool.false_eq_true, if_false, if_true]
  have hlen : ¬ (([91] ++ inner ++ [rb]).length < 2) := by simp
  have hhead : ([91] ++ inner ++ [rb]).head? = some 91 := by simp
  have hlast : ([91] ++ inner ++ [rb]).getLast? = some rb := getLast?_append_singleton _ _
  simp only [hlen, hhead, hlast, decide_false, bne_self_eq_false, Bool.or_self, Bool.false_eq_true, if_false]
  have hvals : (([91] ++ inner ++ [rb]).drop 1).take (([91] ++ inner ++ [rb]).length - 2) = inner := by
    have e : ([91] ++ inner ++ [rb]).drop 1 = inner ++ [rb] := by simp
    have l : ([91] ++ inner ++ [rb]).length - 2 = inner.length := by simp
    rw [e, l, take_left']
  rw [hvals]
  cases bs with
  | nil => simp [inner, List.intercalate]
  | cons b rest =>
    have hne : (List.map (fun x => digits x.toNat) (b :: rest)) ≠ [] := by simp
    have hinner_ne : inner.isEmpty = false := by
      have hd := (digits_spec b.toNat).2.2
      cases hdb : digits b.toNat with
      | nil => exact absurd hdb hd
      | cons c cs =>
        cases rest with
        | nil => simp [inner, List.intercalate, List.intersperse, hdb]
        | cons y ys => simp [inner, intercalate_cons_cons, hdb]
    simp only [hinner_ne, Bool.false_eq_true, if_false]
    have hs := splitOn_intercalate (List.map (fun x => digits x.toNat) (b :: rest)) hne
      (by intro d hd; obtain ⟨x, _, rfl⟩ := List.mem_map.mp hd; exact digits_no_space _)
    simp only [inner] at hs ⊢
    rw [hs, mapM_parseByte]
    rfl

/-! ### Objects -/

def LitOK (L : Leaf) : Lit → Prop
  | .int i => IsI64 i
  | .float b => L.floatOK b = true
  | _ => True

def ObjOK (L : Leaf) : Obj → Prop
  | .node n => NodeOK n
  | .pred p => PredOK L p
  | .lit l => LitOK L l

theorem printLit_form (L : Leaf) (l : Lit) : ∃ v tname, printLit L l = (dq :: v) ++ sepLit ++ tname ∧ dq ∉ tname ∧ tname ≠ [] ∧
    (∀ c, tname.getLast? = some c → asciiSpace c = false) := by
  cases l with
  | bool b => exact ⟨(if b then trueBytes else falseBytes), [98, 111, 111, 108], by simp [printLit], by decide, by decide, by intro c hc; cases hc; decide⟩
  | int i => exact ⟨fmtInt i, [105, 110, 116, 54, 52], by simp [printLit], by decide, by decide, by intro c hc; cases hc; decide⟩
  | float b => exact ⟨L.fmtFloat b, [102, 108, 111, 97, 116, 54, 52], by simp [printLit], by decide, by decide, by intro c hc; cases hc; decide⟩
  | text t => exact ⟨t, [116, 101, 120, 116], by simp [printLit], by decide, by decide, by intro c hc; cases hc; decide⟩
  | blob bs => exact ⟨[91] ++ (List.intercalate [32] (bs.map fun x => digits x.toNat)) ++ [rb], [98, 108, 111, 98], by simp [printLit], by decide, by decide,
      by intro c hc; cases hc; decide⟩

theorem parseLit_printLit (L : Leaf) (hL : LeafLaws L) (l : Lit) (h : LitOK L l) : parseLit L (printLit L l) = some l := by
  cases l with
  | bool b => exact parseLit_printLit_bool L b
  | int i => exact parseLit_printLit_int L i h
  | float b => exact parseLit_printLit_float L hL b h
  | text t => exact parseLit_printLit_text L t
  | blob bs => exact parseLit_printLit_blob L bs

theorem parseObject_printObj (L : Leaf) (hL : LeafLaws L) (o : Obj) (h : ObjOK L o) : parseObject L (printObj L o) = some o := by
  unfold parseObject parseObjectWith
  cases o with
  | node n => simp only [printObj, parseNode_printNode n h]
  | lit l =>
    obtain ⟨v, tname, hf, hd, hne, hlast⟩ := printLit_form L l
    have hcut := parseLit_cut L v tname hd hne hlast
    have hn : parseNode (printLit L l) = none := by
      rw [hf]; exact parseNode_none_of_head_dq _ hcut.1 (by simp)
    simp only [printObj, hn, parseLit_printLit L hL l h]
  | pred p =>
    obtain ⟨body, hq⟩ := hL.quote_shape p.id
    -- a printed predicate starts with a quote and ends with ']'
    have hhead : (printPred L p).head? = some dq := by cases p <;> simp [printPred, Pred.id, hq] at hq ⊢ <;> simp [hq]
    have hlast : (printPred L p).getLast? = some rb := by
      cases p with
      | imm i =>
        have : printPred L (.imm i) = (L.quote i ++ [64, 91]) ++ [rb] := by simp [printPred]
        rw [this]; exact getLast?_append_singleton _ _
      | tmp i t =>
        have : printPred L (.tmp i t) = (L.quote i ++ [64, 91] ++ L.fmtTime t) ++ [rb] := by simp [printPred]
        rw [this]; exact getLast?_append_singleton _ _
    have htrim : trim (printPred L p) = printPred L p := by
      apply trim_id
      · intro c hc; rw [hhead] at hc; cases hc; decide
      · intro c hc; rw [hlast] at hc; cases hc; decide
    have hn := parseNode_none_of_head_dq _ htrim hhead
    have hl := parseLit_none_of_last_rb L _ htrim hlast
    simp only [printObj, hn, hl, parsePred_printPred L hL p h, Option.map_some]

/-! ### Triples -/

theorem printObj_head (L : Leaf) (hL : LeafLaws L) (o : Obj) (h : ObjOK L o) :
    ∃ oh orest, printObj L o = oh :: orest ∧ [slash, dq].contains oh = true ∧ reSpace oh = false ∧
      (∀ c, (oh :: orest).getLast? = some c → asciiSpace c = false) := by
  cases o with
  | node n =>
    obtain ⟨ty, id⟩ := n
    have hty := h.ty
    simp only at hty
    have hhead : ty.head? = some slash := by
      simp only [validType, Bool.and_eq_true, beq_iff_eq] at hty
      exact hty.1.1.1.2
    obtain ⟨trest, rfl⟩ : ∃ r, ty = slash :: r := by
      cases ty with
      | nil => simp at hhead
      | cons c r => simp only [List.head?_cons, Option.some.injEq] at hhead; exact ⟨r, by rw [hhead]⟩
    refine ⟨slash, trest ++ [lt] ++ id ++ [gt], by simp [printObj, printNode], by decide, by decide, ?_⟩
    intro c hc
    have : (slash :: (trest ++ [lt] ++ id ++ [gt])).getLast? = some gt := by
      have e : slash :: (trest ++ [lt] ++ id ++ [gt]) = (slash :: (trest ++ [lt] ++ id)) ++ [gt] := by simp
      rw [e]; exact getLast?_append_singleton _ _
    rw [this] at hc; cases hc; decide
  | lit l =>
    obtain ⟨v, tname, hf, hd, hne, hlast⟩ := printLit_form L l
    refine ⟨dq, v ++ sepLit ++ tname, by simp [printObj, hf], by decide, by decide, ?_⟩
    intro c hc
    have e : (dq :: (v ++ sepLit ++ tname)).getLast? = tname.getLast? := by
      have e1 : dq :: (v ++ sepLit ++ tname) = (dq :: (v ++ sepLit)) ++ tname := by simp
      rw [e1, List.getLast?_eq_head?_reverse, List.getLast?_eq_head?_reverse, List.reverse_append]
      cases hr : tname.reverse with
      | nil => exact absurd (List.reverse_eq_nil_iff.mp hr) hne
      | cons x xs => simp
    rw [e] at hc
    exact hlast c hc
  | pred p =>
    obtain ⟨body, hq⟩ := hL.quote_shape p.id
    cases p with
    | imm i =>
      simp only [Pred.id] at hq
      refine ⟨dq, body ++ [dq] ++ [64, 91, rb], by simp [printObj, printPred, hq], by decide, by decide, ?_⟩
      intro c hc
      have : (dq :: (body ++ [dq] ++ [64, 91, rb])).getLast? = some rb := by
        have e : dq :: (body ++ [dq] ++ [64, 91, rb]) = (dq :: (body ++ [dq] ++ [64, 91])) ++ [rb] := by simp
        rw [e]; exact getLast?_append_singleton _ _
      rw [this] at hc; cases hc; decide
    | tmp i t =>
      simp only [Pred.id] at hq
      refine ⟨dq, body ++ [dq] ++ [64, 91] ++ L.fmtTime t ++ [rb], by simp [printObj, printPred, hq], by decide, by decide, ?_⟩
      intro c hc
      have : (dq :: (body ++ [dq] ++ [64, 91] ++ L.fmtTime t ++ [rb])).getLast? = some rb := by
        have e : dq :: (body ++ [dq] ++ [64, 91] ++ L.fmtTime t ++ [rb]) = (dq :: (body ++ [dq] ++ [64, 91] ++ L.fmtTime t)) ++ [rb] := by simp
        rw [e]; exact getLast?_append_singleton _ _
      rw [this] at hc; cases hc; decide

/-- The scan of a printed (`%q`) ID stops at its closing quote, whatever follows. -/
def QuoteScans (L : Leaf) (id : Bytes) : Prop :=
  ∀ qb, L.quote id = dq :: (qb ++ [dq]) → ∀ rest, scanQuoted (qb ++ dq :: rest) = qb.length

theorem printPred_parts (L : Leaf) (hL : LeafLaws2 L) (p : Pred) :
    ∃ qb A, L.quote p.id = dq :: (qb ++ [dq]) ∧ printPred L p = dq :: (qb ++ dq :: (A ++ [rb])) ∧ noSpace (dq :: A) := by
  obtain ⟨b, hq⟩ := hL.quote_shape p.id
  cases p with
  | imm i =>
    simp only [Pred.id] at hq
    refine ⟨b, [64, 91], hq, by simp [printPred, hq], ?_⟩
    intro c hc
    simp only [List.mem_cons, List.mem_nil_iff, or_false] at hc
    rcases hc with rfl | rfl | rfl <;> decide
  | tmp i t =>
    simp only [Pred.id] at hq
    have hts := hL.time_noSpace t
    refine ⟨b, [64, 91] ++ L.fmtTime t, hq, by simp [printPred, hq], ?_⟩
    intro c hc
    simp only [List.mem_cons, List.mem_append, List.mem_nil_iff, or_false] at hc
    rcases hc with rfl | (rfl | rfl) | hc
    · decide
    · decide
    · decide
    · exact hts c hc


theorem parseTriple_printTriple (L : Leaf) (hL : LeafLaws2 L) (t : Triple)
    (hs : NodeOK t.s) (hsty : noSpace t.s.ty) (hsid : noSpace t.s.id) (hq : QuoteScans L t.p.id) (hpo : PredOK L t.p) (ho : ObjOK L t.o) :
    parseTriple L (printTriple L t) = some t := by
  obtain ⟨s, p, o⟩ := t
  simp only at hs hsty hsid hq hpo ho
  obtain ⟨qb, A, hQ, hP, hAns⟩ := printPred_parts L hL p
  have hscan := hq qb hQ
  obtain ⟨oh, orest, hO, hohn, hohs, holast⟩ := printObj_head L hL.toLeafLaws o ho
  have hty := hs.ty
  have hhead : s.ty.head? = some slash := by
    simp only [validType, Bool.and_eq_true, beq_iff_eq] at hty
    exact hty.1.1.1.2
  let N0 := s.ty ++ [lt] ++ s.id
  have hN : printNode s = N0 ++ [gt] := by simp [printNode, N0]
  have hN0ns : ∀ x ∈ N0, reSpace x = false := by
    intro x hx
    simp only [N0, List.mem_append, List.mem_singleton] at hx
    rcases hx with (hx | rfl) | hx
    · exact hsty x hx
    · decide
    · exact hsid x hx
  -- the printed predicate without its first quote and its last bracket
  let pb := qb ++ dq :: A
  have hP' : printPred L p = dq :: (pb ++ [rb]) := by rw [hP]; simp [pb]
  have hraw : printTriple L ⟨s, p, o⟩ = N0 ++ gt :: ([tab] ++ dq :: (pb ++ rb :: ([tab] ++ oh :: orest))) := by
    simp only [printTriple, hN, hP', hO]
    simp
  have hN0head : N0.head? = some slash := by
    cases hty' : s.ty with
    | nil => rw [hty'] at hhead; simp at hhead
    | cons c r => rw [hty'] at hhead; simp only [N0, hty', List.cons_append, List.head?_cons] at hhead ⊢; exact hhead
  have htrim : trim (N0 ++ gt :: ([tab] ++ dq :: (pb ++ rb :: ([tab] ++ oh :: orest)))) =
      N0 ++ gt :: ([tab] ++ dq :: (pb ++ rb :: ([tab] ++ oh :: orest))) := by
    apply trim_id
    · intro c hc
      cases hN0' : N0 with
      | nil => rw [hN0'] at hN0head; simp at hN0head
      | cons x xs =>
        rw [hN0'] at hc hN0head
        simp only [List.cons_append, List.head?_cons, Option.some.injEq] at hc hN0head
        rw [← hc, hN0head]; decide
    · intro c hc
      have e : (N0 ++ gt :: ([tab] ++ dq :: (pb ++ rb :: ([tab] ++ oh :: orest)))).getLast? = (oh :: orest).getLast? := by
        have e1 : N0 ++ gt :: ([tab] ++ dq :: (pb ++ rb :: ([tab] ++ oh :: orest))) =
            (N0 ++ gt :: ([tab] ++ dq :: (pb ++ rb :: [tab]))) ++ (oh :: orest) := by simp
        rw [e1, List.getLast?_eq_head?_reverse, List.getLast?_eq_head?_reverse, List.reverse_append]
        cases hr : (oh :: orest).reverse with
        | nil => simp at hr
        | cons x xs => simp
      rw [e] at hc
      exact holast c hc
  have hsplit1 := findSplit_first gt dq [dq] N0 [tab] (pb ++ rb :: ([tab] ++ oh :: orest)) 0 hN0ns (by decide)
    (by intro x hx; simp only [List.mem_singleton] at hx; subst hx; decide) (by simp) (by decide) (by decide)
  -- second split: searched from the closing quote of the ID on
  have hsplit2 := findSplit_first rb oh [slash, dq] (dq :: A) [tab] orest 0 hAns (by decide)
    (by intro x hx; simp only [List.mem_singleton] at hx; subst hx; decide) (by simp) hohs hohn
  unfold parseTriple parseTripleWith
  rw [hraw]
  simp only [htrim]
  rw [hsplit1]
  simp only [Nat.zero_add, List.length_singleton]
  -- after the subject, its separator and the opening quote: the ID's body, then its closing quote
  have hdropQ : (N0 ++ gt :: ([tab] ++ dq :: (pb ++ rb :: ([tab] ++ oh :: orest)))).drop (N0.length + 1 + 1 + 1 - 1 + 1) =
      qb ++ dq :: (A ++ rb :: ([tab] ++ oh :: orest)) := by
    have : N0.length + 1 + 1 + 1 - 1 + 1 = (N0 ++ [gt, tab, dq]).length := by simp
    rw [this]
    have e : N0 ++ gt :: ([tab] ++ dq :: (pb ++ rb :: ([tab] ++ oh :: orest))) = (N0 ++ [gt, tab, dq]) ++ (qb ++ dq :: (A ++ rb :: ([tab] ++ oh :: orest))) := by
      simp [pb]
    rw [e, drop_left']
  rw [hdropQ, hscan]
  have hdropE : (N0 ++ gt :: ([tab] ++ dq :: (pb ++ rb :: ([tab] ++ oh :: orest)))).drop (N0.length + 1 + 1 + 1 - 1 + 1 + qb.length) =
      (dq :: A) ++ rb :: ([tab] ++ oh :: orest) := by
    have : N0.length + 1 + 1 + 1 - 1 + 1 + qb.length = (N0 ++ [gt, tab, dq] ++ qb).length := by simp; omega
    rw [this]
    have e : N0 ++ gt :: ([tab] ++ dq :: (pb ++ rb :: ([tab] ++ oh :: orest))) = (N0 ++ [gt, tab, dq] ++ qb) ++ ((dq :: A) ++ rb :: ([tab] ++ oh :: orest)) := by
      simp [pb]
    rw [e, drop_left']
  rw [hdropE, hsplit2]
  simp only [Nat.zero_add, List.length_singleton]
  have hss : (N0 ++ gt :: ([tab] ++ dq :: (pb ++ rb :: ([tab] ++ oh :: orest)))).take (N0.length + 1) = printNode s := by
    rw [hN]
    have e : N0 ++ gt :: ([tab] ++ dq :: (pb ++ rb :: ([tab] ++ oh :: orest))) = (N0 ++ [gt]) ++ ([tab] ++ dq :: (pb ++ rb :: ([tab] ++ oh :: orest))) := by simp
    have hl : N0.length + 1 = (N0 ++ [gt]).length := by simp
    rw [e, hl, take_left']
  have hdropP : (N0 ++ gt :: ([tab] ++ dq :: (pb ++ rb :: ([tab] ++ oh :: orest)))).drop (N0.length + 1 + 1 + 1 - 1) =
      (dq :: pb) ++ rb :: ([tab] ++ oh :: orest) := by
    have : N0.length + 1 + 1 + 1 - 1 = (N0 ++ [gt, tab]).length := by simp
    rw [this]
    have e : N0 ++ gt :: ([tab] ++ dq :: (pb ++ rb :: ([tab] ++ oh :: orest))) = (N0 ++ [gt, tab]) ++ ((dq :: pb) ++ rb :: ([tab] ++ oh :: orest)) := by simp
    rw [e, drop_left']
  have hsp : ((dq :: pb) ++ rb :: ([tab] ++ oh :: orest)).take
      (N0.length + 1 + 1 + 1 - 1 + 1 + qb.length - (N0.length + 1 + 1 + 1 - 1) + (dq :: A).length + 1) = printPred L p := by
    rw [hP']
    have e : (dq :: pb) ++ rb :: ([tab] ++ oh :: orest) = ((dq :: pb) ++ [rb]) ++ ([tab] ++ oh :: orest) := by simp
    have hl : N0.length + 1 + 1 + 1 - 1 + 1 + qb.length - (N0.length + 1 + 1 + 1 - 1) + (dq :: A).length + 1 = ((dq :: pb) ++ [rb]).length := by
      simp [pb]; omega
    rw [e, hl, take_left']
    simp
  have hso : (N0 ++ gt :: ([tab] ++ dq :: (pb ++ rb :: ([tab] ++ oh :: orest)))).drop
      (N0.length + 1 + 1 + 1 - 1 + 1 + qb.length + ((dq :: A).length + 1 + 1 + 1) - 1) = printObj L o := by
    rw [hO]
    have hl : N0.length + 1 + 1 + 1 - 1 + 1 + qb.length + ((dq :: A).length + 1 + 1 + 1) - 1 = (N0 ++ [gt, tab] ++ (dq :: pb) ++ [rb, tab]).length := by
      simp [pb]; omega
    have e : N0 ++ gt :: ([tab] ++ dq :: (pb ++ rb :: ([tab] ++ oh :: orest))) = (N0 ++ [gt, tab] ++ (dq :: pb) ++ [rb, tab]) ++ (oh :: orest) := by simp
    rw [hl, e, drop_left']
  rw [hss, hdropP, hsp, hso]
  have r1 := parseNode_printNode s hs
  have r2 := parsePred_printPred L hL.toLeafLaws p hpo
  have r3 := parseObject_printObj L hL.toLeafLaws o ho
  unfold parseObject at r3
  simp only [r1, r2, r3]


/-! ### Graphs: WriteGraph then ReadIntoGraph -/

/-- A printed triple of the line protocol: no line feed inside, not ending with a carriage return. -/
structure LineOK (L : Leaf) (t : Triple) : Prop where
  noLF : (10 : UInt8) ∉ printTriple L t
  roundTrip : parseTriple L (printTriple L t) = some t
  notBlank : (trim (printTriple L t)).isEmpty = false
  noCR : (printTriple L t).getLast? ≠ some 13

theorem splitLines_writeLines (L : Leaf) (ts : List Triple) (h : ∀ t ∈ ts, LineOK L t) :
    splitLines (writeLines L ts) = ts.map (printTriple L) ++ [[]] := by
  induction ts with
  | nil => simp [splitLines, writeLines, splitOn]
  | cons t ts ih =>
    have ht := h t (by simp)
    have ih' := ih (fun x hx => h x (List.mem_cons_of_mem _ hx))
    have e : writeLines L (t :: ts) = printTriple L t ++ 10 :: writeLines L ts := by
      simp [writeLines]
    unfold splitLines at ih' ⊢
    rw [e, splitOn_append_sep 10 _ _ ht.noLF]
    simp only [List.map_cons, List.cons_append]
    rw [ih']
    congr 1
    split
    · rename_i hl; exact absurd hl ht.noCR
    · rfl

theorem readLines_append_blank (L : Leaf) (ls : List Bytes) : readLines L (ls ++ [[]]) = readLines L ls := by
  induction ls with
  | nil => simp [readLines, trim]
  | cons l ls ih =>
    simp only [List.cons_append]
    unfold readLines
    rw [ih]

/-- Writing a graph as text and reading the text back loads exactly the triples written, in order,
    and reports their number, with no error — provided no printed triple contains a line feed. -/
theorem read_write_round_trip (L : Leaf) (ts : List Triple) (h : ∀ t ∈ ts, LineOK L t) :
    readLines L (splitLines (writeLines L ts)) = (ts, ts.length, false) := by
  rw [splitLines_writeLines L ts h, readLines_append_blank]
  induction ts with
  | nil => simp [readLines]
  | cons t ts ih =>
    have ht := h t (by simp)
    have ih' := ih (fun x hx => h x (List.mem_cons_of_mem _ hx))
    simp only [List.map_cons]
    unfold readLines
    simp only [ht.notBlank, Bool.false_eq_true, if_false, ht.roundTrip, ih', List.length_cons]


end BW.Proofs.Text
