/-
The printed form of a binding, node, blank node, predicate, bound or literal (without embedded double quotes)
is emitted as one token carrying exactly that text (C16) — with the exact side conditions: what `node.NewID`
accepts, IDs as `%q` prints them, a literal value that does not end with a backslash (known finding D36).
-/
import BW.Model.BqlLex
import BW.Proofs.Lexer
set_option linter.unusedSimpArgs false
open BW.Model

namespace BW.Proofs.LexPrinted
set_option linter.unusedSectionVars false
variable {K : Type} [DecidableEq K]

/-- Lexing a text that one sub-lexer takes whole: that token, then the end token. -/
theorem lex_single (T : LexTables K) (r : Rune) (t : List Rune) (k : K)
    (hd : dispatch T T.tError r (r :: t) = some (.tok k (r :: t) [])) :
    lex T (r :: t) = [(k, r :: t), (T.tEOF, [])] := by
  unfold lex
  simp only [List.length_cons, lexLoop, hd, List.nil_append, List.dropWhile_nil]

/-! ### Bindings -/

theorem takeWhile_all {α : Type} (p : α → Bool) (l : List α) (h : ∀ x ∈ l, p x = true) :
    l.takeWhile p = l ∧ l.dropWhile p = [] := by
  induction l with
  | nil => simp
  | cons a l ih =>
    have ha := h a List.mem_cons_self
    have := ih (fun x hx => h x (List.mem_cons_of_mem _ hx))
    simp [List.takeWhile_cons, List.dropWhile_cons, ha, this]

/-- **A printed binding is one token**: `?` followed by letters, digits and `_`. -/
theorem lex_binding (T : LexTables K) (q : Rune) (name : List Rune) (hq : q.cp = 63) (hqd : q.digit = false)
    (hn : ∀ x ∈ name, isNameRune x = true) :
    lex T (q :: name) = [(T.tBinding, q :: name), (T.tEOF, [])] := by
  apply lex_single
  obtain ⟨h1, h2⟩ := takeWhile_all isNameRune name hn
  simp [dispatch, hqd, hq, lexBinding, h1, h2]

/-! ### Nodes -/

/-- Scanning the type part (no `<`, `>`, `\\`) and then `<`. -/
theorem nodeGo_type (T : LexTables K) (ty : List Rune) (hty : ∀ x ∈ ty, x.cp ≠ 60 ∧ x.cp ≠ 62 ∧ x.cp ≠ 92) :
    ∀ (acc rest : List Rune) (lt : Bool), lexNodeGo T acc (ty ++ rest) lt = lexNodeGo T (ty.reverse ++ acc) rest lt := by
  induction ty with
  | nil => intro acc rest lt; rfl
  | cons x ty ih =>
    intro acc rest lt
    obtain ⟨h1, h2, h3⟩ := hty x List.mem_cons_self
    rw [List.cons_append, lexNodeGo.eq_def]
    simp only [h3, h1, h2, beq_iff_eq, if_false]
    rw [ih (fun y hy => hty y (List.mem_cons_of_mem _ hy))]
    simp

/-- Scanning the ID part (no `<`, `>`; backslashes anywhere) once `<` has been seen, up to the closing `>`. -/
theorem nodeGo_id (T : LexTables K) (id : List Rune) (hid : ∀ x ∈ id, x.cp ≠ 60 ∧ x.cp ≠ 62)
    (gt : Rune) (hgt : gt.cp = 62) :
    ∀ (acc rest : List Rune), lexNodeGo T acc (id ++ gt :: rest) true = .tok T.tNode ((gt :: (id.reverse ++ acc)).reverse) rest := by
  induction id with
  | nil =>
    intro acc rest
    rw [List.nil_append, lexNodeGo.eq_def]
    simp [hgt]
  | cons x id ih =>
    intro acc rest
    obtain ⟨h1, h2⟩ := hid x List.mem_cons_self
    have ih' := ih (fun y hy => hid y (List.mem_cons_of_mem _ hy))
    rw [List.cons_append, lexNodeGo.eq_def]
    by_cases hb : x.cp = 92
    · simp only [hb, beq_self_eq_true, if_true]
      -- the rune after the backslash is not `<`
      cases id with
      | nil =>
        simp only [List.nil_append, hgt]
        have := ih' (x :: acc) rest
        simp only [List.nil_append] at this
        simp [this]
      | cons y id' =>
        have hy := (hid y (List.mem_cons_of_mem _ List.mem_cons_self)).1
        simp only [List.cons_append, hy, beq_iff_eq, if_false]
        have := ih' (x :: acc) rest
        simp only [List.cons_append] at this
        rw [this]; simp
    · simp only [hb, h1, h2, beq_iff_eq, if_false]
      rw [ih' (x :: acc) rest]; simp

/-- **A printed node is one token**: `/type<id>` where the type holds no `<`, `>`, `\\` and the ID no `<`, `>`
    (what `node.NewType` / `node.NewID` accept; the ID may hold backslashes, also last). -/
theorem lex_node (T : LexTables K) (sl lt gt : Rune) (ty id : List Rune)
    (hsl : sl.cp = 47) (hsd : sl.digit = false) (hlt : lt.cp = 60) (hgt : gt.cp = 62)
    (hty : ∀ x ∈ ty, x.cp ≠ 60 ∧ x.cp ≠ 62 ∧ x.cp ≠ 92) (hid : ∀ x ∈ id, x.cp ≠ 60 ∧ x.cp ≠ 62) :
    lex T (sl :: (ty ++ lt :: (id ++ [gt]))) = [(T.tNode, sl :: (ty ++ lt :: (id ++ [gt]))), (T.tEOF, [])] := by
  apply lex_single
  have hsl' : ∀ x ∈ sl :: ty, x.cp ≠ 60 ∧ x.cp ≠ 62 ∧ x.cp ≠ 92 := by
    intro x hx
    rcases List.mem_cons.mp hx with e | hx
    · subst e; simp [hsl]
    · exact hty x hx
  have e1 := nodeGo_type T (sl :: ty) hsl' [] (lt :: (id ++ [gt])) false
  have e2 : lexNodeGo T ((sl :: ty).reverse ++ []) (lt :: (id ++ [gt])) false =
      lexNodeGo T (lt :: ((sl :: ty).reverse ++ [])) (id ++ [gt]) true := by
    rw [lexNodeGo.eq_def]; simp [hlt]
  have e3 := nodeGo_id T id hid gt hgt (lt :: ((sl :: ty).reverse ++ [])) []
  simp only [dispatch, hsd, hsl, Bool.false_and, lexNode]
  rw [List.cons_append] at e1
  rw [e1, e2, e3]
  simp

/-! ### Blank nodes -/

/-- **A blank node `_:name` is one token** (a letter, then letters, digits and `_`). -/
theorem lex_blank (T : LexTables K) (u c l : Rune) (name : List Rune) (hu : u.cp = 95) (hud : u.digit = false)
    (hc : c.cp = 58) (hl : l.letter = true) (hn : ∀ x ∈ name, isNameRune x = true) :
    lex T (u :: c :: l :: name) = [(T.tBlank, u :: c :: l :: name), (T.tEOF, [])] := by
  apply lex_single
  obtain ⟨h1, h2⟩ := takeWhile_all isNameRune name hn
  simp [dispatch, hud, hu, lexBlankNode, hc, hl, h1, h2]

/-! ### Bytes: where the delimiters `"@[` and `"^^type:` are found -/

/-- As far as ASCII goes, a rune's bytes are its code point. -/
def RuneOK (r : Rune) : Prop :=
  (r.cp < 128 → r.bytes = [r.cp.toUInt8]) ∧ (128 ≤ r.cp → ∀ b ∈ r.bytes, 128 ≤ b.toNat)

theorem no_quote_byte (rs : List Rune) (h : ∀ r ∈ rs, RuneOK r ∧ r.cp ≠ 34) : (34 : UInt8) ∉ runesBytes rs := by
  induction rs with
  | nil => simp [runesBytes]
  | cons r rs ih =>
    obtain ⟨⟨h1, h2⟩, h3⟩ := h r List.mem_cons_self
    have ih' := ih (fun x hx => h x (List.mem_cons_of_mem _ hx))
    simp only [runesBytes, List.flatMap_cons, List.mem_append, not_or] at ih' ⊢
    refine ⟨?_, ih'⟩
    by_cases hc : r.cp < 128
    · rw [h1 hc]
      simp only [List.mem_singleton]
      intro e
      have : (34 : UInt8).toNat = r.cp.toUInt8.toNat := by rw [e]
      simp only [Nat.toUInt8, UInt8.toNat_ofNat'] at this
      have e34 : (34 : UInt8).toNat = 34 := rfl
      rw [e34] at this
      omega
    · intro hm
      have := h2 (by omega) 34 hm
      have e34 : (34 : UInt8).toNat = 34 := rfl
      omega

theorem runesBytes_append (a b : List Rune) : runesBytes (a ++ b) = runesBytes a ++ runesBytes b := by
  simp [runesBytes]

theorem indexOf_skip (p0 : UInt8) (ps : Bytes) (pre : Bytes) (h : p0 ∉ pre) (rest : Bytes) (i : Nat) :
    indexOf (p0 :: ps) (pre ++ rest) i = indexOf (p0 :: ps) rest (i + pre.length) := by
  induction pre generalizing i with
  | nil => rfl
  | cons b pre ih =>
    have hb : p0 ≠ b := fun e => h (e ▸ List.mem_cons_self)
    have hpre : p0 ∉ pre := fun hm => h (List.mem_cons_of_mem _ hm)
    have hbf : (p0 == b) = false := by simp [hb]
    simp only [List.cons_append, indexOf, isPrefixB, hbf, Bool.false_and, Bool.false_eq_true, if_false]
    rw [ih hpre]
    simp only [List.length_cons]
    rw [show i + 1 + pre.length = i + (pre.length + 1) by omega]

theorem indexOf_ge (pat : Bytes) (bs : Bytes) (i l : Nat) (h : indexOf pat bs i = some l) : i ≤ l := by
  induction bs generalizing i with
  | nil => simp only [indexOf] at h; split at h <;> simp_all
  | cons b bs ih =>
    simp only [indexOf] at h
    split at h
    · simp only [Option.some.injEq] at h; omega
    · have := ih (i + 1) h; omega

theorem indexOf_none_of_absent (p0 : UInt8) (ps : Bytes) (bs : Bytes) (h : p0 ∉ bs) (i : Nat) :
    indexOf (p0 :: ps) bs i = none := by
  induction bs generalizing i with
  | nil => simp [indexOf]
  | cons b bs ih =>
    have hb : p0 ≠ b := fun e => h (e ▸ List.mem_cons_self)
    have hbf : (p0 == b) = false := by simp [hb]
    simp only [indexOf, isPrefixB, hbf, Bool.false_and, Bool.false_eq_true, if_false]
    exact ih (fun hm => h (List.mem_cons_of_mem _ hm)) _

/-! ### Predicates and bounds -/

/-- A printed (`%q`) ID without embedded double quotes: plain runes, `\\\\` pairs, and a backslash followed by a
    plain rune (`\\n`, `\\x7f`, `\\u00e9` …). -/
inductive PBody : List Rune → Prop
  | nil : PBody []
  | plain (r : Rune) (t : List Rune) (h : r.cp ≠ 34 ∧ r.cp ≠ 92) : PBody t → PBody (r :: t)
  | pair (b n : Rune) (t : List Rune) (hb : b.cp = 92) (hn : n.cp = 92) : PBody t → PBody (b :: n :: t)
  | esc (b r : Rune) (t : List Rune) (hb : b.cp = 92) (h : r.cp ≠ 34 ∧ r.cp ≠ 92) : PBody t → PBody (b :: r :: t)

theorem predGo_body (T : LexTables K) (body : List Rune) (hb : PBody body) :
    ∀ (acc rest : List Rune), lexPredicateGo T acc (body ++ rest) = lexPredicateGo T (body.reverse ++ acc) rest := by
  induction hb with
  | nil => intro acc rest; rfl
  | plain r t h _ ih =>
    intro acc rest
    rw [List.cons_append, lexPredicateGo.eq_def]
    simp only [h.1, h.2, beq_iff_eq, if_false]
    rw [ih]; simp
  | pair b n t hb hn _ ih =>
    intro acc rest
    rw [List.cons_append, List.cons_append, lexPredicateGo.eq_def]
    simp only [hb, hn, beq_self_eq_true, if_true, Bool.or_true]
    rw [ih]; simp
  | esc b r t hb h _ ih =>
    intro acc rest
    rw [List.cons_append, List.cons_append, lexPredicateGo.eq_def]
    have hf : (r.cp == 34 || r.cp == 92) = false := by simp [h.1, h.2]
    simp only [hb, beq_self_eq_true, if_true, hf, Bool.false_eq_true, if_false]
    rw [lexPredicateGo.eq_def]
    simp only [h.1, h.2, beq_iff_eq, if_false]
    rw [ih]; simp

def commaCount (rs : List Rune) : Nat := (rs.filter (·.cp == 44)).length

theorem predTail_scan (T : LexTables K) (anchor : List Rune) (ha : ∀ x ∈ anchor, x.cp ≠ 93) (rb : Rune) (hrb : rb.cp = 93) :
    ∀ (acc rest : List Rune) (c : Nat), predTail T acc (anchor ++ rb :: rest) c =
      if c + commaCount anchor > 1 then .err (rb :: (anchor.reverse ++ acc)).reverse
      else .tok (if c + commaCount anchor == 0 then T.tPredicate else T.tPredBound) (rb :: (anchor.reverse ++ acc)).reverse rest := by
  induction anchor with
  | nil =>
    intro acc rest c
    simp [predTail, hrb, commaCount]
  | cons x anchor ih =>
    intro acc rest c
    have hx := ha x List.mem_cons_self
    rw [List.cons_append, predTail]
    simp only [hx, beq_iff_eq, if_false]
    rw [ih (fun y hy => ha y (List.mem_cons_of_mem _ hy))]
    by_cases h44 : x.cp = 44
    · simp [commaCount, List.filter_cons, h44, Nat.add_assoc, Nat.add_comm 1]
    · simp [commaCount, List.filter_cons, h44]

theorem pbody_no_quote {body : List Rune} (h : PBody body) : ∀ r ∈ body, r.cp ≠ 34 := by
  induction h with
  | nil => intro r hr; cases hr
  | plain r t h _ ih =>
    intro x hx
    rcases List.mem_cons.mp hx with e | hx
    · rw [e]; exact h.1
    · exact ih x hx
  | pair b n t hb hn _ ih =>
    intro x hx
    rcases List.mem_cons.mp hx with e | hx
    · rw [e, hb]; decide
    · rcases List.mem_cons.mp hx with e | hx
      · rw [e, hn]; decide
      · exact ih x hx
  | esc b r t hb h _ ih =>
    intro x hx
    rcases List.mem_cons.mp hx with e | hx
    · rw [e, hb]; decide
    · rcases List.mem_cons.mp hx with e | hx
      · rw [e]; exact h.1
      · exact ih x hx

/-- An ASCII delimiter rune as Go classifies it. -/
def Delim (r : Rune) (c : Nat) : Prop := r.cp = c ∧ r.bytes = [c.toUInt8] ∧ r.lower = c

/-- **A printed predicate or bound without embedded double quotes is one token**: `"id"@[anchor]` where the
    printed ID holds no `"` (and backslashes only as `%q` writes them) and the anchor part no `]` and at most
    one comma — PREDICATE without a comma, PREDICATE_BOUND with one. -/
theorem lex_predicate (T : LexTables K) (q q2 at_ lb rb : Rune) (body anchor : List Rune)
    (hq : Delim q 34) (hqd : q.digit = false) (hq2 : Delim q2 34) (hat : Delim at_ 64) (hlb : Delim lb 91) (hrb : rb.cp = 93)
    (hbody : PBody body) (hok : ∀ r ∈ body, RuneOK r)
    (ha : ∀ x ∈ anchor, x.cp ≠ 93) (hc : commaCount anchor ≤ 1) :
    lex T (q :: (body ++ q2 :: at_ :: lb :: (anchor ++ [rb]))) =
      [(if commaCount anchor == 0 then T.tPredicate else T.tPredBound, q :: (body ++ q2 :: at_ :: lb :: (anchor ++ [rb]))), (T.tEOF, [])] := by
  apply lex_single
  obtain ⟨hq1, hqb, _⟩ := hq
  obtain ⟨h21, h2b, h2l⟩ := hq2
  obtain ⟨ha1, hab, hal⟩ := hat
  obtain ⟨hl1, hlbb, hll⟩ := hlb
  -- which sub-lexer
  have hbytes : (runesBytes (q :: (body ++ q2 :: at_ :: lb :: (anchor ++ [rb])))).drop 1 =
      runesBytes body ++ (34 :: 64 :: 91 :: runesBytes (anchor ++ [rb])) := by
    simp [runesBytes, hqb, h2b, hab, hlbb]
  have hno : (34 : UInt8) ∉ runesBytes body :=
    no_quote_byte body (fun r hr => ⟨hok r hr, pbody_no_quote hbody r hr⟩)
  have hp : indexOf anchorPat (runesBytes body ++ (34 :: 64 :: 91 :: runesBytes (anchor ++ [rb]))) 0 = some (runesBytes body).length := by
    unfold anchorPat
    rw [indexOf_skip 34 _ _ hno]
    simp [indexOf, isPrefixB]
  have hl : ∀ l, indexOf litTypePat (runesBytes body ++ (34 :: 64 :: 91 :: runesBytes (anchor ++ [rb]))) 0 = some l →
      (runesBytes body).length < l := by
    intro l hl
    unfold litTypePat at hl
    rw [indexOf_skip 34 _ _ hno] at hl
    simp only [indexOf, isPrefixB, Nat.zero_add] at hl
    have hne : ((94 : UInt8) == 64) = false := by decide
    simp only [hne, Bool.false_and, Bool.and_false, Bool.false_eq_true, if_false, beq_self_eq_true, Bool.true_and] at hl
    have := indexOf_ge _ _ _ _ hl
    omega
  have hsel : lexPredicateOrLiteral T (q :: (body ++ q2 :: at_ :: lb :: (anchor ++ [rb]))) =
      lexPredicate T (q :: (body ++ q2 :: at_ :: lb :: (anchor ++ [rb]))) := by
    unfold lexPredicateOrLiteral
    simp only [hbytes, hp]
    cases hli : indexOf litTypePat (runesBytes body ++ (34 :: 64 :: 91 :: runesBytes (anchor ++ [rb]))) 0 with
    | none => rfl
    | some l => simp [hl l hli]
  -- the scan
  have hscan : lexPredicate T (q :: (body ++ q2 :: at_ :: lb :: (anchor ++ [rb]))) =
      .tok (if commaCount anchor == 0 then T.tPredicate else T.tPredBound) (q :: (body ++ q2 :: at_ :: lb :: (anchor ++ [rb]))) [] := by
    simp only [lexPredicate]
    rw [predGo_body T body hbody, lexPredicateGo.eq_def]
    simp only [h21, beq_self_eq_true, if_true]
    have h92 : ((34 : Nat) == 92) = false := by decide
    simp only [h92, Bool.false_eq_true, if_false]
    simp only [consumePat, h2l, hal, hll, asciiLower, beq_self_eq_true, if_true]
    simp only [show ¬ (65 ≤ 34 ∧ 34 ≤ 90) by omega, show ¬ (65 ≤ 64 ∧ 64 ≤ 90) by omega, show ¬ (65 ≤ 91 ∧ 91 ≤ 90) by omega, if_false,
      beq_self_eq_true, if_true]
    rw [predTail_scan T anchor ha rb hrb]
    have : ¬ (0 + commaCount anchor > 1) := by omega
    simp only [this, if_false, Nat.zero_add]
    simp
    all_goals exact hc
  simp only [dispatch, hqd, hq1, Bool.false_and]
  rw [hsel, hscan]
  simp

/-! ### Literals -/

/-- The value does not end with a backslash (a backslash before the closing quote would escape it: known
    finding D36). -/
def NoTrailingBackslash (v : List Rune) : Prop := ∀ x, v.getLast? = some x → x.cp ≠ 92

theorem litGo_body (T : LexTables K) (q2 : Rune) (hq2 : q2.cp = 34) (v : List Rune) (hv : ∀ x ∈ v, x.cp ≠ 34)
    (hl : NoTrailingBackslash v) :
    ∀ (acc rest : List Rune), lexLiteralGo T acc (v ++ q2 :: rest) = lexLiteralGo T (v.reverse ++ acc) (q2 :: rest) := by
  induction v with
  | nil => intro acc rest; rfl
  | cons x v ih =>
    intro acc rest
    have hx := hv x List.mem_cons_self
    have hv' : ∀ y ∈ v, y.cp ≠ 34 := fun y hy => hv y (List.mem_cons_of_mem _ hy)
    cases v with
    | nil =>
      have hx92 : x.cp ≠ 92 := hl x rfl
      rw [List.cons_append, lexLiteralGo.eq_def]
      simp [hx, hx92]
    | cons y v' =>
      have hl' : NoTrailingBackslash (y :: v') := by
        intro z hz
        apply hl z
        simpa [List.getLast?_cons_cons] using hz
      have hy := hv' y List.mem_cons_self
      rw [List.cons_append, lexLiteralGo.eq_def]
      by_cases hx92 : x.cp = 92
      · simp only [hx92, beq_self_eq_true, if_true, List.cons_append, hy, beq_iff_eq, if_false]
        rw [← List.cons_append, ih hv' hl']
        simp
      · simp only [hx92, hx, beq_iff_eq, if_false]
        rw [ih hv' hl']
        simp

theorem consumePat_all (pat : List Nat) : ∀ (dl acc rest : List Rune), dl.map (·.lower) = pat.map asciiLower →
    consumePat pat acc (dl ++ rest) = (true, dl.reverse ++ acc, rest) := by
  induction pat with
  | nil =>
    intro dl acc rest h
    cases dl with
    | nil => simp [consumePat]
    | cons _ _ => simp at h
  | cons c pat ih =>
    intro dl acc rest h
    cases dl with
    | nil => simp at h
    | cons d dl =>
      simp only [List.map_cons, List.cons.injEq] at h
      rw [List.cons_append, consumePat]
      simp only [h.1, beq_self_eq_true, if_true]
      rw [ih dl (d :: acc) rest h.2]
      simp

/-- **A printed literal without embedded double quotes is one token**: `"value"^^type:T` where the value
    holds no `"` and does not end with a backslash (known finding D36 is exactly that boundary) and `T` is one
    of the literal type names (any letter case). -/
theorem lex_literal (T : LexTables K) (q q2 : Rune) (v dl ty : List Rune)
    (hq : Delim q 34) (hqd : q.digit = false) (hq2 : Delim q2 34)
    (hv : ∀ x ∈ v, RuneOK x ∧ x.cp ≠ 34) (hl : NoTrailingBackslash v)
    (hdl : (q2 :: dl).map (·.lower) = [34, 94, 94, 116, 121, 112, 101, 58]) (hdb : runesBytes (q2 :: dl) = litTypePat)
    (hty : ∀ x ∈ ty, (x.letter || x.digit) = true) (htb : (34 : UInt8) ∉ runesBytes ty)
    (hknown : T.litTypes.contains (lowerCps ty) = true) :
    lex T (q :: (v ++ q2 :: (dl ++ ty))) = [(T.tLiteral, q :: (v ++ q2 :: (dl ++ ty))), (T.tEOF, [])] := by
  apply lex_single
  obtain ⟨hq1, hqb, _⟩ := hq
  obtain ⟨h21, h2b, h2l⟩ := hq2
  have hbytes : (runesBytes (q :: (v ++ q2 :: (dl ++ ty)))).drop 1 = runesBytes v ++ (litTypePat ++ runesBytes ty) := by
    have : runesBytes (q2 :: (dl ++ ty)) = litTypePat ++ runesBytes ty := by
      rw [← List.cons_append, runesBytes_append, hdb]
    have e : runesBytes (q :: (v ++ q2 :: (dl ++ ty))) = q.bytes ++ (runesBytes v ++ runesBytes (q2 :: (dl ++ ty))) := by
      simp [runesBytes]
    rw [e, hqb, this]
    rfl
  have hno : (34 : UInt8) ∉ runesBytes v := no_quote_byte v hv
  have hlidx : indexOf litTypePat (runesBytes v ++ (litTypePat ++ runesBytes ty)) 0 = some (runesBytes v).length := by
    unfold litTypePat
    rw [indexOf_skip 34 _ _ hno]
    simp [indexOf, isPrefixB]
  have hpidx : indexOf anchorPat (runesBytes v ++ (litTypePat ++ runesBytes ty)) 0 = none := by
    unfold anchorPat litTypePat
    rw [indexOf_skip 34 _ _ hno]
    simp only [List.cons_append, List.nil_append, indexOf, isPrefixB]
    have hne : ((64 : UInt8) == 94) = false := by decide
    simp only [hne, Bool.false_and, Bool.and_false, Bool.false_eq_true, if_false, beq_self_eq_true, Bool.true_and]
    apply indexOf_none_of_absent
    exact htb
  have hsel : lexPredicateOrLiteral T (q :: (v ++ q2 :: (dl ++ ty))) = lexLiteral T (q :: (v ++ q2 :: (dl ++ ty))) := by
    unfold lexPredicateOrLiteral
    rw [hbytes]
    dsimp only
    rw [hpidx, hlidx]
  have htw := takeWhile_all (fun x : Rune => x.letter || x.digit) ty hty
  have hscan : lexLiteral T (q :: (v ++ q2 :: (dl ++ ty))) = .tok T.tLiteral (q :: (v ++ q2 :: (dl ++ ty))) [] := by
    simp only [lexLiteral]
    rw [litGo_body T q2 h21 v (fun x hx => (hv x hx).2) hl, lexLiteralGo.eq_def]
    have h92 : ((34 : Nat) == 92) = false := by decide
    simp only [h21, h92, Bool.false_eq_true, if_false, beq_self_eq_true, if_true]
    have hc := consumePat_all [34, 94, 94, 116, 121, 112, 101, 58] (q2 :: dl) (v.reverse ++ [q]) ty
      (by rw [hdl]; decide)
    rw [List.cons_append] at hc
    rw [hc]
    simp only [htw.1, htw.2, hknown, if_true]
    simp
  simp only [dispatch, hqd, hq1, Bool.false_and]
  rw [hsel, hscan]
  simp

end BW.Proofs.LexPrinted
