/-
Facts about the statement model (C04): graphs as sets of normalised triples, the effect of the
`update` fan-out, CREATE / DROP, template instantiation and reification.
-/
import BW.Model.Statements

set_option linter.unusedSimpArgs false

namespace BW.Proofs.Statements
open BW.Model BW.Spec BW.Model.Stm

/-! ### Triples as values: zone offsets do not matter -/

def normTime (t : Time) : Time := ⟨t.nanos, 0⟩
def normPred : Pred → Pred
  | .imm i => .imm i
  | .tmp i t => .tmp i (normTime t)
def normObj : Obj → Obj
  | .node n => .node n
  | .pred p => .pred (normPred p)
  | .lit l => .lit l
def normT (t : Triple) : Triple := ⟨t.s, normPred t.p, normObj t.o⟩

theorem predSame_iff (a b : Pred) : predSame a b = true ↔ normPred a = normPred b := by
  cases a <;> cases b <;> simp [predSame, normPred, normTime, Pred.id, Pred.anchor]

theorem objSame_iff (a b : Obj) : objSame a b = true ↔ normObj a = normObj b := by
  cases a <;> cases b <;> simp [objSame, normObj, predSame_iff]

theorem tripleSame_iff (a b : Triple) : tripleSame a b = true ↔ normT a = normT b := by
  cases a; cases b
  simp [tripleSame, normT, predSame_iff, objSame_iff, and_assoc]

/-- The set a graph denotes. -/
def Sem (g : VGraph) (k : Triple) : Prop := k ∈ g.map normT

theorem has_iff (g : VGraph) (t : Triple) : g.has t = true ↔ Sem g (normT t) := by
  simp only [VGraph.has, List.any_eq_true, tripleSame_iff, Sem, List.mem_map]
  constructor
  · rintro ⟨x, hx, h⟩; exact ⟨x, hx, h.symm⟩
  · rintro ⟨x, hx, h⟩; exact ⟨x, hx, h.symm⟩

theorem sem_add (g : VGraph) (t k : Triple) : Sem (g.add t) k ↔ Sem g k ∨ k = normT t := by
  unfold VGraph.add
  split
  · rename_i h
    rw [has_iff] at h
    constructor
    · exact Or.inl
    · rintro (h' | rfl)
      · exact h'
      · exact h
  · simp only [Sem, List.map_append, List.mem_append, List.map_cons, List.map_nil, List.mem_singleton]

theorem sem_rem (g : VGraph) (t k : Triple) : Sem (g.rem t) k ↔ Sem g k ∧ k ≠ normT t := by
  simp only [VGraph.rem, Sem, List.mem_map, List.mem_filter, Bool.not_eq_true', ← Bool.not_eq_true, tripleSame_iff]
  constructor
  · rintro ⟨x, ⟨hx, hne⟩, rfl⟩
    exact ⟨⟨x, hx, rfl⟩, fun h => hne h.symm⟩
  · rintro ⟨⟨x, hx, rfl⟩, hne⟩
    exact ⟨x, ⟨hx, fun h => hne h.symm⟩, rfl⟩

theorem sem_addAll (g : VGraph) (ts : List Triple) (k : Triple) : Sem (g.addAll ts) k ↔ Sem g k ∨ k ∈ ts.map normT := by
  unfold VGraph.addAll
  induction ts generalizing g with
  | nil => simp
  | cons t ts ih =>
    simp only [List.foldl_cons, ih, sem_add, List.map_cons, List.mem_cons]
    constructor
    · rintro ((h | h) | h)
      · exact Or.inl h
      · exact Or.inr (Or.inl h)
      · exact Or.inr (Or.inr h)
    · rintro (h | h | h)
      · exact Or.inl (Or.inl h)
      · exact Or.inl (Or.inr h)
      · exact Or.inr h

theorem sem_remAll (g : VGraph) (ts : List Triple) (k : Triple) : Sem (g.remAll ts) k ↔ Sem g k ∧ k ∉ ts.map normT := by
  unfold VGraph.remAll
  induction ts generalizing g with
  | nil => simp
  | cons t ts ih =>
    simp only [List.foldl_cons, ih, sem_rem, List.map_cons, List.mem_cons, not_or]
    constructor
    · rintro ⟨⟨h1, h2⟩, h3⟩; exact ⟨h1, h2, h3⟩
    · rintro ⟨h1, h2, h3⟩; exact ⟨⟨h1, h2⟩, h3⟩

/-! ### The store -/

/-- The set a named graph denotes (nothing when the graph does not exist). -/
def SemAt (s : VStore) (n : Bytes) (k : Triple) : Prop := ∃ g, s.get n = some g ∧ Sem g k

theorem exists_iff_get (s : VStore) (n : Bytes) : s.exists n = true ↔ ∃ g, s.get n = some g := by
  unfold VStore.exists VStore.get
  induction s.graphs with
  | nil => simp
  | cons p ps ih =>
    simp only [List.any_cons, Bool.or_eq_true, List.find?_cons]
    cases h : (p.1 == n)
    · simpa using ih
    · simp

theorem get_update (s : VStore) (n m : Bytes) (f : VGraph → VGraph) :
    (s.update n f).get m = if m = n then (s.get m).map f else s.get m := by
  unfold VStore.update VStore.get
  simp only
  induction s.graphs with
  | nil => simp
  | cons p ps ih =>
    simp only [List.map_cons, List.find?_cons]
    by_cases hpn : p.1 = n
    · subst hpn
      simp only [beq_self_eq_true, if_true]
      by_cases hm : p.1 = m
      · subst hm; simp
      · have : (p.1 == m) = false := by simpa using hm
        simp only [this]
        rw [ih]
    · have h1 : (p.1 == n) = false := by simpa using hpn
      simp only [h1, Bool.false_eq_true, if_false]
      cases hm : (p.1 == m)
      · simp only; rw [ih]
      · have : p.1 = m := by simpa using hm
        subst this
        simp [hpn]

theorem exists_update (s : VStore) (n m : Bytes) (f : VGraph → VGraph) : (s.update n f).exists m = s.exists m := by
  unfold VStore.update VStore.exists
  simp only [List.any_map]
  congr 1
  funext p
  simp only [Function.comp]
  split <;> rfl

/-! ### `update`: one batch to every target -/

def stepU (f : VGraph → VGraph) (acc : VStore × Outcome) (n : Bytes) : VStore × Outcome :=
  if acc.1.exists n then (acc.1.update n f, acc.2) else (acc.1, .failed)

theorem updateAll_eq (st : VStore) (targets : List Bytes) (f : VGraph → VGraph) :
    updateAll st targets f = targets.foldl (stepU f) (st, .ok) := rfl

theorem foldU_exists (f : VGraph → VGraph) (targets : List Bytes) (acc : VStore × Outcome) (m : Bytes) :
    (targets.foldl (stepU f) acc).1.exists m = acc.1.exists m := by
  induction targets generalizing acc with
  | nil => rfl
  | cons n ns ih =>
    simp only [List.foldl_cons]
    rw [ih]
    unfold stepU
    split
    · exact exists_update _ _ _ _
    · rfl

theorem foldU_untouched (f : VGraph → VGraph) (targets : List Bytes) (acc : VStore × Outcome) (m : Bytes)
    (hm : m ∉ targets) : (targets.foldl (stepU f) acc).1.get m = acc.1.get m := by
  induction targets generalizing acc with
  | nil => rfl
  | cons n ns ih =>
    simp only [List.mem_cons, not_or] at hm
    simp only [List.foldl_cons]
    rw [ih _ hm.2]
    unfold stepU
    split
    · rw [get_update]; simp [hm.1]
    · rfl

theorem foldU_nextBlank (f : VGraph → VGraph) (targets : List Bytes) (acc : VStore × Outcome) :
    (targets.foldl (stepU f) acc).1.nextBlank = acc.1.nextBlank := by
  induction targets generalizing acc with
  | nil => rfl
  | cons n ns ih =>
    simp only [List.foldl_cons]
    rw [ih]
    unfold stepU
    split <;> rfl

theorem foldU_outcome (f : VGraph → VGraph) (targets : List Bytes) (acc : VStore × Outcome) :
    (targets.foldl (stepU f) acc).2 = .ok ↔ acc.2 = .ok ∧ ∀ n ∈ targets, acc.1.exists n = true := by
  induction targets generalizing acc with
  | nil => simp
  | cons n ns ih =>
    simp only [List.foldl_cons, ih, List.mem_cons, forall_eq_or_imp]
    unfold stepU
    by_cases h : acc.1.exists n = true
    · simp only [h, if_true, exists_update, true_and]
    · simp only [h, Bool.false_eq_true, if_false, false_and, and_false]
      constructor
      · rintro ⟨h', _⟩; cases h'
      · exact False.elim

theorem semAt_update (s : VStore) (n m : Bytes) (f : VGraph → VGraph) (k : Triple) :
    SemAt (s.update n f) m k ↔ if m = n then ∃ g, s.get m = some g ∧ Sem (f g) k else SemAt s m k := by
  unfold SemAt
  rw [get_update]
  split
  · constructor
    · rintro ⟨g, hg, hk⟩
      cases hs : s.get m with
      | none => simp [hs] at hg
      | some g0 => simp only [hs, Option.map_some, Option.some.injEq] at hg; subst hg; exact ⟨g0, rfl, hk⟩
    · rintro ⟨g, hg, hk⟩
      exact ⟨f g, by simp [hg], hk⟩
  · rfl

/-- INSERT-like fan-out: every existing target gains exactly the batch; nothing else changes. -/
theorem foldU_add (D : List Triple) (targets : List Bytes) (acc : VStore × Outcome) (m : Bytes) (k : Triple) :
    SemAt (targets.foldl (stepU (·.addAll D)) acc).1 m k ↔
      SemAt acc.1 m k ∨ (m ∈ targets ∧ acc.1.exists m = true ∧ k ∈ D.map normT) := by
  induction targets generalizing acc with
  | nil => simp
  | cons n ns ih =>
    simp only [List.foldl_cons, ih, List.mem_cons]
    unfold stepU
    by_cases h : acc.1.exists n = true
    · simp only [h, if_true, exists_update, semAt_update]
      by_cases hmn : m = n
      · subst hmn
        simp only [if_true, true_or, true_and, h]
        obtain ⟨g0, hg0⟩ := (exists_iff_get _ _).mp h
        constructor
        · rintro (⟨g, hg, hk⟩ | ⟨_, hk⟩)
          · rw [hg0] at hg; cases hg
            rcases (sem_addAll _ _ _).mp hk with h1 | h1
            · exact Or.inl ⟨g0, hg0, h1⟩
            · exact Or.inr h1
          · exact Or.inr hk
        · rintro (⟨g, hg, hk⟩ | hk)
          · rw [hg0] at hg; cases hg
            exact Or.inl ⟨g0, hg0, (sem_addAll _ _ _).mpr (Or.inl hk)⟩
          · exact Or.inl ⟨g0, hg0, (sem_addAll _ _ _).mpr (Or.inr hk)⟩
      · simp only [hmn, if_false, false_or]
    · simp only [h, Bool.false_eq_true, if_false]
      constructor
      · rintro (h1 | ⟨h2, h3, h4⟩)
        · exact Or.inl h1
        · exact Or.inr ⟨Or.inr h2, h3, h4⟩
      · rintro (h1 | ⟨h2 | h2, h3, h4⟩)
        · exact Or.inl h1
        · subst h2; rw [h3] at h; exact absurd rfl h
        · exact Or.inr ⟨h2, h3, h4⟩

/-- DELETE-like fan-out: every existing target loses exactly the batch; nothing else changes. -/
theorem foldU_rem (D : List Triple) (targets : List Bytes) (acc : VStore × Outcome) (m : Bytes) (k : Triple) :
    SemAt (targets.foldl (stepU (·.remAll D)) acc).1 m k ↔
      SemAt acc.1 m k ∧ ¬ (m ∈ targets ∧ k ∈ D.map normT) := by
  induction targets generalizing acc with
  | nil => simp
  | cons n ns ih =>
    simp only [List.foldl_cons, ih, List.mem_cons]
    unfold stepU
    by_cases h : acc.1.exists n = true
    · simp only [h, if_true, semAt_update]
      by_cases hmn : m = n
      · subst hmn
        simp only [if_true, true_or, true_and]
        obtain ⟨g0, hg0⟩ := (exists_iff_get _ _).mp h
        constructor
        · rintro ⟨⟨g, hg, hk⟩, _⟩
          rw [hg0] at hg; cases hg
          have := (sem_remAll _ _ _).mp hk
          exact ⟨⟨g0, hg0, this.1⟩, this.2⟩
        · rintro ⟨⟨g, hg, hk⟩, hn⟩
          rw [hg0] at hg; cases hg
          exact ⟨⟨g0, hg0, (sem_remAll _ _ _).mpr ⟨hk, hn⟩⟩, fun h' => hn h'.2⟩
      · simp only [hmn, if_false, false_or]
    · simp only [h, Bool.false_eq_true, if_false]
      constructor
      · rintro ⟨h1, h2⟩
        refine ⟨h1, ?_⟩
        rintro ⟨h3 | h3, h4⟩
        · subst h3
          obtain ⟨g, hg, _⟩ := h1
          exact h ((exists_iff_get _ _).mpr ⟨g, hg⟩)
        · exact h2 ⟨h3, h4⟩
      · rintro ⟨h1, h2⟩
        exact ⟨h1, fun h' => h2 ⟨Or.inr h'.1, h'.2⟩⟩

/-! ### CREATE / DROP -/

def stepC (acc : VStore × Outcome) (n : Bytes) : VStore × Outcome :=
  if acc.1.exists n then (acc.1, .failed) else ({ acc.1 with graphs := acc.1.graphs ++ [(n, [])] }, acc.2)

def stepD (acc : VStore × Outcome) (n : Bytes) : VStore × Outcome :=
  if acc.1.exists n then ({ acc.1 with graphs := acc.1.graphs.filter (·.1 != n) }, acc.2) else (acc.1, .failed)

theorem execCreate_eq (st : VStore) (names : List Bytes) : execCreate st names = names.foldl stepC (st, .ok) := rfl
theorem execDrop_eq (st : VStore) (names : List Bytes) : execDrop st names = names.foldl stepD (st, .ok) := rfl

theorem get_append_new (s : VStore) (n m : Bytes) :
    ({ s with graphs := s.graphs ++ [(n, [])] } : VStore).get m =
      match s.get m with
      | some g => some g
      | none => if n = m then some [] else none := by
  unfold VStore.get
  simp only [List.find?_append]
  cases h : List.find? (fun x => x.1 == m) s.graphs with
  | some p => simp
  | none =>
    simp only [Option.map_none, Option.none_or, List.find?_cons, List.find?_nil]
    by_cases hnm : n = m
    · subst hnm; simp
    · have : (n == m) = false := by simpa using hnm
      simp [this, hnm]

theorem foldC_get (names : List Bytes) (acc : VStore × Outcome) (m : Bytes) :
    (names.foldl stepC acc).1.get m =
      match acc.1.get m with
      | some g => some g
      | none => if m ∈ names then some [] else none := by
  induction names generalizing acc with
  | nil => cases h : acc.1.get m <;> simp [h]
  | cons n ns ih =>
    simp only [List.foldl_cons, ih, List.mem_cons]
    unfold stepC
    by_cases h : acc.1.exists n = true
    · simp only [h, if_true]
      cases hg : acc.1.get m with
      | some g => rfl
      | none =>
        have : m ≠ n := by
          rintro rfl
          obtain ⟨g, hg'⟩ := (exists_iff_get _ _).mp h
          rw [hg] at hg'; cases hg'
        simp [this]
    · simp only [h, Bool.false_eq_true, if_false, get_append_new]
      cases hg : acc.1.get m with
      | some g => rfl
      | none =>
        by_cases hnm : n = m
        · subst hnm; simp
        · have : m ≠ n := fun e => hnm e.symm
          simp [hnm, this]

theorem foldC_nextBlank (names : List Bytes) (acc : VStore × Outcome) : (names.foldl stepC acc).1.nextBlank = acc.1.nextBlank := by
  induction names generalizing acc with
  | nil => rfl
  | cons n ns ih => simp only [List.foldl_cons, ih]; unfold stepC; split <;> rfl

theorem get_filter_ne (s : VStore) (n m : Bytes) :
    ({ s with graphs := s.graphs.filter (·.1 != n) } : VStore).get m = if m = n then none else s.get m := by
  unfold VStore.get
  simp only
  induction s.graphs with
  | nil => simp
  | cons p ps ih =>
    simp only [List.filter_cons]
    by_cases hpn : p.1 = n
    · have h1 : (p.1 != n) = false := by simp [hpn]
      simp only [h1, Bool.false_eq_true, if_false, ih, List.find?_cons]
      by_cases hmn : m = n
      · simp [hmn]
      · have : (p.1 == m) = false := by
          have : p.1 ≠ m := by rw [hpn]; exact fun e => hmn e.symm
          simpa using this
        simp [hmn, this]
    · have h1 : (p.1 != n) = true := by simp [hpn]
      simp only [h1, if_true, List.find?_cons]
      cases hpm : (p.1 == m)
      · simp only; exact ih
      · have : p.1 = m := by simpa using hpm
        have hmn : m ≠ n := by rw [← this]; exact hpn
        simp [hmn]

theorem foldD_get (names : List Bytes) (acc : VStore × Outcome) (m : Bytes) :
    (names.foldl stepD acc).1.get m = if m ∈ names then none else acc.1.get m := by
  induction names generalizing acc with
  | nil => simp
  | cons n ns ih =>
    simp only [List.foldl_cons, ih, List.mem_cons]
    unfold stepD
    by_cases h : acc.1.exists n = true
    · simp only [h, if_true, get_filter_ne]
      by_cases hmn : m = n
      · simp [hmn]
      · simp [hmn]
    · simp only [h, Bool.false_eq_true, if_false]
      by_cases hmn : m = n
      · subst hmn
        have : acc.1.get m = none := by
          cases hg : acc.1.get m with
          | none => rfl
          | some g => exact absurd ((exists_iff_get _ _).mpr ⟨g, hg⟩) h
        simp [this]
      · simp [hmn]

theorem foldC_outcome_ok (names : List Bytes) (acc : VStore × Outcome) (h : (names.foldl stepC acc).2 = .ok) :
    acc.2 = .ok ∧ ∀ n ∈ names, acc.1.exists n = false := by
  induction names generalizing acc with
  | nil => exact ⟨h, by simp⟩
  | cons n ns ih =>
    simp only [List.foldl_cons] at h
    have := ih _ h
    unfold stepC at this
    by_cases he : acc.1.exists n = true
    · simp only [he, if_true] at this; cases this.1
    · simp only [he, Bool.false_eq_true, if_false] at this
      refine ⟨this.1, ?_⟩
      intro x hx
      rcases List.mem_cons.mp hx with rfl | hx
      · simpa using he
      · have h2 := this.2 x hx
        have : acc.1.exists x = false := by
          cases hax : acc.1.exists x with
          | false => rfl
          | true =>
            have : ({ acc.1 with graphs := acc.1.graphs ++ [(n, [])] } : VStore).exists x = true := by
              simp only [VStore.exists, List.any_append, Bool.or_eq_true] at hax ⊢
              exact Or.inl hax
            rw [this] at h2; cases h2
        exact this

theorem foldD_outcome_ok (names : List Bytes) (acc : VStore × Outcome) (h : (names.foldl stepD acc).2 = .ok) :
    acc.2 = .ok ∧ ∀ n ∈ names, acc.1.exists n = true := by
  induction names generalizing acc with
  | nil => exact ⟨h, by simp⟩
  | cons n ns ih =>
    simp only [List.foldl_cons] at h
    have := ih _ h
    unfold stepD at this
    by_cases he : acc.1.exists n = true
    · simp only [he, if_true] at this
      refine ⟨this.1, ?_⟩
      intro x hx
      rcases List.mem_cons.mp hx with rfl | hx
      · exact he
      · have h2 := this.2 x hx
        simp only [VStore.exists, List.any_filter, List.any_eq_true, Bool.and_eq_true] at h2 ⊢
        obtain ⟨p, hp, _, hpx⟩ := h2
        exact ⟨p, hp, hpx⟩
    · simp only [he, Bool.false_eq_true, if_false] at this; cases this.1

/-! ### Templates -/

theorem blankNode_inj (i j : Nat) (h : blankNode i = blankNode j) : i = j := by
  unfold blankNode at h
  have := congrArg (fun n : Node => n.id.length) h
  simpa using this

/-- The three reification triples hang off the blank node and restate subject, predicate, object. -/
theorem reify_shape (b : Node) (t : Triple) :
    reify b t = [⟨b, reifPred subjectId t.p, .node t.s⟩, ⟨b, reifPred predicateId t.p, .pred t.p⟩, ⟨b, reifPred objectId t.p, t.o⟩] := rfl

theorem reifPred_anchor (id : Bytes) (p : Pred) : (reifPred id p).anchor = p.anchor ∧ (reifPred id p).id = id := by
  cases p <;> simp [reifPred, Pred.anchor, Pred.id]

/-- A template clause without ';' yields exactly one triple and takes no blank node. -/
theorem instClause_plain (hasB : Bytes → Bool) (cc : CClause) (b : Node) (r : Row) (ts : List Triple)
    (h : instClause hasB cc b r = .ok (ts, false)) : ∃ t, ts = [t] ∧ cc.pairs.length = 1 := by
  unfold instClause at h
  match hp : cc.pairs with
  | [] => simp [hp] at h
  | first :: rest =>
    simp only [hp] at h
    cases hs : instSubject hasB r cc with
    | error e => simp [hs, bind, Except.bind] at h
    | ok s =>
    cases hpp : instPred hasB r first with
    | error e => simp [hs, hpp, bind, Except.bind] at h
    | ok p =>
    cases ho : instObj hasB r first with
    | error e => simp [hs, hpp, ho, bind, Except.bind] at h
    | ok o =>
    cases ht : mkTriple s p o with
    | error e => simp [hs, hpp, ho, ht, bind, Except.bind] at h
    | ok t =>
    simp only [hs, hpp, ho, ht, bind, Except.bind, pure, Except.pure] at h
    by_cases hr : rest.isEmpty = true
    · simp only [hr, if_true, Except.ok.injEq, Prod.mk.injEq] at h
      refine ⟨t, h.1.symm, ?_⟩
      cases rest with
      | nil => rfl
      | cons _ _ => simp at hr
    · simp only [hr, Bool.false_eq_true, if_false] at h
      cases hm : List.mapM (instExtra hasB r b) rest with
      | error e => simp [hm, bind, Except.bind] at h
      | ok ex => simp [hm, bind, Except.bind, pure, Except.pure] at h

theorem mkTriple_subject (s : Node) (p : Option Pred) (o : Option Obj) (t : Triple) (h : mkTriple (some s) p o = .ok t) : t.s = s := by
  unfold mkTriple at h
  cases p <;> cases o <;> simp at h
  rw [← h]

theorem instExtra_subject (hasB : Bytes → Bool) (r : Row) (b : Node) (pp : POPair) (t : Triple)
    (h : instExtra hasB r b pp = .ok t) : t.s = b := by
  unfold instExtra at h
  cases hp : instPred hasB r pp with
  | error e => simp [hp, bind, Except.bind] at h
  | ok p =>
  cases ho : instObj hasB r pp with
  | error e => simp [hp, ho, bind, Except.bind] at h
  | ok o =>
    simp only [hp, ho, bind, Except.bind] at h
    exact mkTriple_subject b p o t h

theorem mapM_subject (hasB : Bytes → Bool) (r : Row) (b : Node) (rest : List POPair) (ex : List Triple)
    (h : List.mapM (instExtra hasB r b) rest = Except.ok ex) : ex.length = rest.length ∧ ∀ e ∈ ex, e.s = b := by
  induction rest generalizing ex with
  | nil => simp [List.mapM_nil, pure, Except.pure] at h; subst h; simp
  | cons pp rest ih =>
    rw [List.mapM_cons] at h
    cases ht : instExtra hasB r b pp with
    | error e => simp [ht, bind, Except.bind] at h
    | ok t =>
    cases hm : List.mapM (instExtra hasB r b) rest with
    | error e => simp [ht, hm, bind, Except.bind] at h
    | ok ex' =>
      simp only [ht, hm, bind, Except.bind, pure, Except.pure, Except.ok.injEq] at h
      subst h
      have := ih ex' hm
      refine ⟨by simp [this.1], ?_⟩
      intro e he
      rcases List.mem_cons.mp he with rfl | he
      · exact instExtra_subject hasB r b pp _ ht
      · exact this.2 e he

/-- A template clause with ';' yields, for the row, the three reification triples of its first
    triple and one extra fact per further pair, all on the blank node it was given — and not the
    first triple itself. -/
theorem instClause_reified (hasB : Bytes → Bool) (cc : CClause) (b : Node) (r : Row) (ts : List Triple)
    (h : instClause hasB cc b r = .ok (ts, true)) :
    ∃ t extras, ts = reify b t ++ extras ∧ extras.length + 1 = cc.pairs.length ∧ (∀ e ∈ extras, e.s = b) ∧ 2 ≤ cc.pairs.length := by
  unfold instClause at h
  match hp : cc.pairs with
  | [] => simp [hp] at h
  | first :: rest =>
    simp only [hp] at h
    cases hs : instSubject hasB r cc with
    | error e => simp [hs, bind, Except.bind] at h
    | ok s =>
    cases hpp : instPred hasB r first with
    | error e => simp [hs, hpp, bind, Except.bind] at h
    | ok p =>
    cases ho : instObj hasB r first with
    | error e => simp [hs, hpp, ho, bind, Except.bind] at h
    | ok o =>
    cases ht : mkTriple s p o with
    | error e => simp [hs, hpp, ho, ht, bind, Except.bind] at h
    | ok t =>
    simp only [hs, hpp, ho, ht, bind, Except.bind, pure, Except.pure] at h
    by_cases hr : rest.isEmpty = true
    · simp [hr] at h
    · simp only [hr, Bool.false_eq_true, if_false] at h
      cases hm : List.mapM (instExtra hasB r b) rest with
      | error e => simp [hm, bind, Except.bind] at h
      | ok ex =>
        simp only [hm, bind, Except.bind, pure, Except.pure, Except.ok.injEq, Prod.mk.injEq, and_true] at h
        have := mapM_subject hasB r b rest ex hm
        refine ⟨t, ex, h.symm, by simp [this.1], this.2, ?_⟩
        cases rest with
        | nil => simp at hr
        | cons _ _ => simp

/-! ### The whole template over the rows: blank nodes are handed out once each -/

/-- `instAll` as a recursion over the (clause, row) pairs. -/
def instSeq (hasB : Bytes → Bool) : List (CClause × Row) → Nat → Except TErr (List Triple × Nat)
  | [], n => .ok ([], n)
  | (cc, r) :: rest, n =>
    match instClause hasB cc (blankNode n) r with
    | .error e => .error e
    | .ok (ts, used) =>
      match instSeq hasB rest (if used then n + 1 else n) with
      | .error e => .error e
      | .ok (ts', n') => .ok (ts ++ ts', n')

def instStep (hasB : Bytes → Bool) (acc : List Triple × Nat) (cr : CClause × Row) : Except TErr (List Triple × Nat) := do
  let (ts, used) ← instClause hasB cr.1 (blankNode acc.2) cr.2
  pure (acc.1 ++ ts, if used then acc.2 + 1 else acc.2)

theorem foldlM_instStep (hasB : Bytes → Bool) (ps : List (CClause × Row)) (pre : List Triple) (n : Nat) :
    ps.foldlM (instStep hasB) (pre, n) = (instSeq hasB ps n).map fun (x : List Triple × Nat) => (pre ++ x.1, x.2) := by
  induction ps generalizing pre n with
  | nil => simp [instSeq, Except.map, pure, Except.pure]
  | cons cr ps ih =>
    obtain ⟨cc, r⟩ := cr
    simp only [List.foldlM_cons, instSeq]
    cases hc : instClause hasB cc (blankNode n) r with
    | error e =>
      have hs : instStep hasB (pre, n) (cc, r) = .error e := by
        unfold instStep; simp [hc, bind, Except.bind]
      rw [hs]; simp [bind, Except.bind, Except.map]
    | ok x =>
      obtain ⟨ts, used⟩ := x
      have hs : instStep hasB (pre, n) (cc, r) = .ok (pre ++ ts, if used then n + 1 else n) := by
        unfold instStep; simp [hc, bind, Except.bind, pure, Except.pure]
      rw [hs]
      simp only [bind, Except.bind]
      rw [ih]
      cases hr : instSeq hasB ps (if used = true then n + 1 else n) with
      | error e => simp [Except.map]
      | ok y => simp [Except.map, List.append_assoc]

theorem instAll_eq (hasB : Bytes → Bool) (ccs : List CClause) (rows : List Row) (n : Nat) :
    instAll hasB ccs rows n = instSeq hasB (ccs.flatMap fun cc => rows.map fun r => (cc, r)) n := by
  unfold instAll
  have := foldlM_instStep hasB (ccs.flatMap fun cc => rows.map fun r => (cc, r)) [] n
  have e : (fun (acc : List Triple × Nat) (cr : CClause × Row) => do
      let (ts, used) ← instClause hasB cr.1 (blankNode acc.2) cr.2
      pure (acc.1 ++ ts, if used then acc.2 + 1 else acc.2)) = instStep hasB := rfl
  rw [e, this]
  cases instSeq hasB (ccs.flatMap fun cc => rows.map fun r => (cc, r)) n with
  | error e => rfl
  | ok y => simp [Except.map]

/-- The blank nodes handed out, in order. -/
def handed (hasB : Bytes → Bool) : List (CClause × Row) → Nat → List Nat
  | [], _ => []
  | (cc, r) :: rest, n =>
    match instClause hasB cc (blankNode n) r with
    | .ok (_, true) => n :: handed hasB rest (n + 1)
    | .ok (_, false) => handed hasB rest n
    | .error _ => []

theorem handed_ge (hasB : Bytes → Bool) (ps : List (CClause × Row)) (n : Nat) : ∀ i ∈ handed hasB ps n, n ≤ i := by
  induction ps generalizing n with
  | nil => simp [handed]
  | cons cr ps ih =>
    obtain ⟨cc, r⟩ := cr
    unfold handed
    cases hc : instClause hasB cc (blankNode n) r with
    | error e => simp
    | ok x =>
      obtain ⟨ts, used⟩ := x
      cases used
      · exact ih n
      · intro i hi
        rcases List.mem_cons.mp hi with rfl | hi
        · exact Nat.le_refl _
        · exact Nat.le_of_succ_le (ih (n + 1) i hi)

/-- Every reification of a statement gets its own blank node. -/
theorem handed_nodup (hasB : Bytes → Bool) (ps : List (CClause × Row)) (n : Nat) : (handed hasB ps n).Nodup := by
  induction ps generalizing n with
  | nil => simp [handed]
  | cons cr ps ih =>
    obtain ⟨cc, r⟩ := cr
    unfold handed
    cases hc : instClause hasB cc (blankNode n) r with
    | error e => simp
    | ok x =>
      obtain ⟨ts, used⟩ := x
      cases used
      · exact ih n
      · refine List.nodup_cons.mpr ⟨?_, ih (n + 1)⟩
        intro hmem
        have := handed_ge hasB ps (n + 1) n hmem
        omega

theorem nodup_map_blank (l : List Nat) (h : l.Nodup) : (l.map blankNode).Nodup := by
  induction l with
  | nil => simp
  | cons i is ih =>
    have hc := List.nodup_cons.mp h
    simp only [List.map_cons]
    refine List.nodup_cons.mpr ⟨?_, ih hc.2⟩
    intro hm
    obtain ⟨j, hj, hij⟩ := List.mem_map.mp hm
    have := blankNode_inj j i hij
    subst this
    exact hc.1 hj

theorem handed_blanks_nodup (hasB : Bytes → Bool) (ps : List (CClause × Row)) (n : Nat) :
    ((handed hasB ps n).map blankNode).Nodup := nodup_map_blank _ (handed_nodup hasB ps n)

/-- … and the counter ends above every blank node handed out, so none is ever handed out again. -/
theorem handed_lt (hasB : Bytes → Bool) (ps : List (CClause × Row)) (n n' : Nat) (ts : List Triple)
    (h : instSeq hasB ps n = .ok (ts, n')) : n ≤ n' ∧ ∀ i ∈ handed hasB ps n, i < n' := by
  induction ps generalizing n ts with
  | nil => simp [instSeq] at h; simp [handed, h]
  | cons cr ps ih =>
    obtain ⟨cc, r⟩ := cr
    unfold instSeq at h
    unfold handed
    cases hc : instClause hasB cc (blankNode n) r with
    | error e => simp [hc] at h
    | ok x =>
      obtain ⟨ts1, used⟩ := x
      simp only [hc] at h
      cases hr : instSeq hasB ps (if used = true then n + 1 else n) with
      | error e => simp [hr] at h
      | ok y =>
        obtain ⟨ts2, n2⟩ := y
        simp only [hr, Except.ok.injEq, Prod.mk.injEq] at h
        obtain ⟨_, rfl⟩ := h
        cases used
        · simp only [Bool.false_eq_true, if_false] at hr
          exact ih n ts2 hr
        · simp only [if_true] at hr
          have := ih (n + 1) ts2 hr
          refine ⟨by omega, ?_⟩
          intro i hi
          rcases List.mem_cons.mp hi with rfl | hi
          · omega
          · exact this.2 i hi

end BW.Proofs.Statements
