/-
One row per assignment (C03): over a scan without repeated triples the solutions of a pattern of determined
mandatory clauses are pairwise different rows — the row determines the triple each clause matched.
-/
import BW.Proofs.PlannerStep11
set_option linter.unusedSimpArgs false
set_option linter.unusedVariables false
open BW.Model BW.Spec BW.Proofs.ClauseOrder BW.Proofs.Planner

namespace BW.Proofs.OnePerAssignment

/-- Every position of the clause is a constant or is shown in the row: the row determines the triple. -/
def Determined (c : Clause) : Prop :=
  (c.s.isSome ∨ c.sBinding ≠ [] ∨ c.sAlias ≠ []) ∧
  (c.p.isSome ∨ c.pBinding ≠ [] ∨ c.pAlias ≠ [] ∨ (c.pID ≠ [] ∧ (c.pAnchorBinding ≠ [] ∨ c.pAnchorAlias ≠ []))) ∧
  (c.o.isSome ∨ c.oBinding ≠ [] ∨ c.oAlias ≠ [])

theorem norm_node {a b : Node} (h : normCell (.node a) = normCell (.node b)) : a = b := by
  simpa [normCell] using h

theorem norm_pred {a b : Pred} (h : normCell (.pred a) = normCell (.pred b)) : predSame a b = true := by
  rw [predSame_iff']; simpa [normCell] using h

theorem objCell_same {a b : Obj} (h : normCell (objCell a) = normCell (objCell b)) : objSame a b = true := by
  cases a <;> cases b <;> simp [objCell, normCell, objSame] at h ⊢
  · exact h
  · rw [predSame_iff']; exact h
  · exact h

theorem objSame_both {o a b : Obj} (h : objSame o a = true) (h' : objSame o b = true) : objSame a b = true := by
  cases o <;> cases a <;> cases b <;> simp [objSame] at h h' ⊢
  · rw [← h, ← h']
  · rw [predSame_iff'] at h h' ⊢; rw [← h, ← h']
  · rw [← h, ← h']

/-- What a named step of the clause shows in the matched row. -/
theorem step_value {c : Clause} {t : Triple} {m : Row} (h : specBind c t = some m) (k : Bytes) (e : Option Cell)
    (hmem : (k, e) ∈ clauseSteps c t) (hk : k ≠ []) : ∃ v cell, e = some cell ∧ m.get k = some v ∧ normCell v = normCell cell := by
  unfold specBind at h
  exact (foldl_bindStep_get (clauseSteps c t) [] m h).2.2 (k, e) hmem hk

theorem matchClause_facts {c : Clause} {w : Window} {t : Triple} {m : Row} (h : matchClause c w t = some m) :
    constsMatch c t = true ∧ (c.pID ≠ [] → t.p.id = c.pID) := by
  unfold matchClause at h
  constructor
  · by_cases hc : constsMatch c t = true
    · exact hc
    · simp [hc] at h
  · intro hp
    by_cases hc : constsMatch c t = true
    · simp only [hc, Bool.not_true, Bool.false_eq_true, if_false] at h
      by_cases hid : t.p.id = c.pID
      · exact hid
      · simp [hp, hid] at h
    · simp [hc] at h

theorem pred_of_id_anchor {p p' : Pred} (hid : p.id = p'.id) (ha : (anchorOf p).map normCell = (anchorOf p').map normCell)
    (hs : (anchorOf p).isSome = true) : predSame p p' = true := by
  cases p <;> cases p' <;> simp_all [anchorOf, predSame, normCell, Pred.id, Pred.anchor]

/-- **The row determines the triple**: two triples on which a determined, mandatory clause binds the same row
    are the same triple. -/
theorem row_determines_triple {c : Clause} (hd : Determined c) (hopt : c.optional = false) {w w' : Window}
    {t t' : Triple} {m m' : Row} (h : matchClause c w t = some m) (h' : matchClause c w' t' = some m')
    (he : RowEq m m') : TripleEq t t' := by
  obtain ⟨hs, hp, ho⟩ := hd
  have ⟨hc, hpid⟩ := matchClause_facts h
  have ⟨hc', hpid'⟩ := matchClause_facts h'
  have sb := matchClause_specBind h
  have sb' := matchClause_specBind h'
  simp only [constsMatch, Bool.and_eq_true] at hc hc'
  -- the value both rows show under a named step
  have shown : ∀ (k : Bytes) (e e' : Option Cell), (k, e) ∈ clauseSteps c t → (k, e') ∈ clauseSteps c t' → k ≠ [] →
      ∃ x x', e = some x ∧ e' = some x' ∧ normCell x = normCell x' := by
    intro k e e' hm hm' hk
    obtain ⟨v, x, e1, g1, n1⟩ := step_value sb k e hm hk
    obtain ⟨v', x', e1', g1', n1'⟩ := step_value sb' k e' hm' hk
    have := he k
    rw [g1, g1'] at this
    simp only [Option.map_some, Option.some.injEq] at this
    exact ⟨x, x', e1, e1', by rw [← n1, this, n1']⟩
  refine ⟨?_, ?_, ?_⟩
  · -- subject
    rcases hs with hs | hs | hs
    · obtain ⟨n, hn⟩ := Option.isSome_iff_exists.mp hs
      have a := hc.1.1; have a' := hc'.1.1
      simp only [hn, beq_iff_eq] at a a'
      rw [← a, ← a']
    · obtain ⟨x, x', e1, e2, n⟩ := shown c.sBinding (some (.node t.s)) (some (.node t'.s)) (by simp [clauseSteps]) (by simp [clauseSteps]) hs
      simp only [Option.some.injEq] at e1 e2; subst e1; subst e2
      exact norm_node n
    · obtain ⟨x, x', e1, e2, n⟩ := shown c.sAlias (some (.node t.s)) (some (.node t'.s)) (by simp [clauseSteps]) (by simp [clauseSteps]) hs
      simp only [Option.some.injEq] at e1 e2; subst e1; subst e2
      exact norm_node n
  · -- predicate
    rcases hp with hp | hp | hp | ⟨hid, hab⟩
    · obtain ⟨p, hpp⟩ := Option.isSome_iff_exists.mp hp
      have a := hc.1.2; have a' := hc'.1.2
      simp only [hpp] at a a'
      rw [predSame_iff'] at a a' ⊢
      rw [← a, ← a']
    · obtain ⟨x, x', e1, e2, n⟩ := shown c.pBinding (some (.pred t.p)) (some (.pred t'.p)) (by simp [clauseSteps]) (by simp [clauseSteps]) hp
      simp only [Option.some.injEq] at e1 e2; subst e1; subst e2
      exact norm_pred n
    · obtain ⟨x, x', e1, e2, n⟩ := shown c.pAlias (some (.pred t.p)) (some (.pred t'.p)) (by simp [clauseSteps]) (by simp [clauseSteps]) hp
      simp only [Option.some.injEq] at e1 e2; subst e1; subst e2
      exact norm_pred n
    · have idEq : t.p.id = t'.p.id := by rw [hpid hid, hpid' hid]
      have key : ∀ k, k ≠ [] → (k, extract c.optional (anchorOf t.p)) ∈ clauseSteps c t →
          (k, extract c.optional (anchorOf t'.p)) ∈ clauseSteps c t' → predSame t.p t'.p = true := by
        intro k hk hm hm'
        obtain ⟨x, x', e1, e2, n⟩ := shown k _ _ hm hm' hk
        simp only [hopt, extract] at e1 e2
        cases ha : anchorOf t.p with
        | none => simp [ha] at e1
        | some a =>
          cases ha' : anchorOf t'.p with
          | none => simp [ha'] at e2
          | some a' =>
            simp only [ha, ha', Option.some.injEq] at e1 e2
            subst e1; subst e2
            exact pred_of_id_anchor idEq (by rw [ha, ha']; simp [n]) (by rw [ha]; rfl)
      rcases hab with hab | hab
      · exact key c.pAnchorBinding hab (by simp [clauseSteps]) (by simp [clauseSteps])
      · exact key c.pAnchorAlias hab (by simp [clauseSteps]) (by simp [clauseSteps])
  · -- object
    rcases ho with ho | ho | ho
    · obtain ⟨o, hoo⟩ := Option.isSome_iff_exists.mp ho
      have a := hc.2; have a' := hc'.2
      simp only [hoo] at a a'
      exact objSame_both a a'
    · obtain ⟨x, x', e1, e2, n⟩ := shown c.oBinding (some (objCell t.o)) (some (objCell t'.o)) (by simp [clauseSteps]) (by simp [clauseSteps]) ho
      simp only [Option.some.injEq] at e1 e2; subst e1; subst e2
      exact objCell_same n
    · obtain ⟨x, x', e1, e2, n⟩ := shown c.oAlias (some (objCell t.o)) (some (objCell t'.o)) (by simp [clauseSteps]) (by simp [clauseSteps]) ho
      simp only [Option.some.injEq] at e1 e2; subst e1; subst e2
      exact objCell_same n

/-! ### One row per assignment -/

/-- The keys a matched row holds are the named steps of the clause: the same for every triple. -/
theorem match_keys {c : Clause} {t t' : Triple} {m m' : Row} (h : specBind c t = some m) (h' : specBind c t' = some m')
    (k : Bytes) : m.has k = m'.has k := by
  have key : ∀ {t : Triple} {m : Row}, specBind c t = some m → (m.has k = true ↔ k ∈ extractNames c ∧ k ≠ []) := by
    intro t m h
    obtain ⟨i1, _, i3⟩ := foldl_bindStep_get (clauseSteps c t) [] m h
    rw [has_iff_get]
    constructor
    · intro hk
      cases hg : m.get k with
      | none => simp [hg] at hk
      | some v =>
        rcases i1 k v hg with h0 | ⟨kv, hmem, hkk, hne, _⟩
        · simp [Row.get] at h0
        · refine ⟨?_, hne⟩
          rw [← steps_keys c t]; exact List.mem_map.mpr ⟨kv, hmem, hkk⟩
    · rintro ⟨hin, hne⟩
      rw [← steps_keys c t] at hin
      obtain ⟨kv, hmem, hkk⟩ := List.mem_map.mp hin
      obtain ⟨v, _, _, hg, _⟩ := i3 kv hmem (hkk ▸ hne)
      rw [← hkk, hg]; rfl
  have a := key h
  have b := key h'
  cases hm : m.has k <;> cases hm' : m'.has k <;> simp_all

theorem get_none_of_not_has {r : Row} {k : Bytes} (h : r.has k = false) : r.get k = none := by
  rw [has_iff_get] at h
  cases hg : r.get k with
  | none => rfl
  | some v => simp [hg] at h

theorem compatible_get {r m : Row} (hc : compatible r m = true) {k : Bytes} {v x : Cell} (hr : r.get k = some v)
    (hm : m.get k = some x) : normCell v = normCell x := by
  unfold compatible at hc
  rw [List.all_eq_true] at hc
  have hmem : (k, v) ∈ r ∨ True := Or.inr trivial
  -- the first entry of `r` under `k` is `(k, v)`
  unfold Row.get at hr
  cases hf : r.find? (·.1 == k) with
  | none => simp [hf] at hr
  | some kv =>
    simp only [hf, Option.map_some, Option.some.injEq] at hr
    have hin := List.mem_of_find?_eq_some hf
    have hk : kv.1 = k := by have := List.find?_some hf; simpa using this
    have := hc kv hin
    obtain ⟨k', v'⟩ := kv
    simp only at hk hr this
    subst hk; subst hr
    simp only [hm] at this
    exact (cellSame_iff _ _).mp this

/-- Two matches of one clause that agree with the row and merge into the same row are the same row. -/
theorem merged_same {c : Clause} {r m m' : Row} {t t' : Triple} (h : specBind c t = some m) (h' : specBind c t' = some m')
    (hc : compatible r m = true) (hc' : compatible r m' = true) (he : RowEq (r.merge m) (r.merge m')) : RowEq m m' := by
  intro k
  have hk := match_keys h h' k
  have e := he k
  rw [get_merge, get_merge] at e
  cases hr : r.get k with
  | none => simpa [hr] using e
  | some v =>
    cases hm : m.get k with
    | none =>
      have : m.has k = false := by rw [has_iff_get, hm]; rfl
      rw [get_none_of_not_has (by rw [← hk]; exact this)]
    | some x =>
      have : m.has k = true := by rw [has_iff_get, hm]; rfl
      have h2 : m'.has k = true := by rw [← hk]; exact this
      rw [has_iff_get] at h2
      cases hm' : m'.get k with
      | none => simp [hm'] at h2
      | some x' =>
        simp only [Option.map_some, Option.some.injEq]
        rw [← compatible_get hc hr hm, ← compatible_get hc' hr hm']

def Distinct (rows : List Row) : Prop := rows.Pairwise fun a b => ¬ RowEq a b
def ScanDistinct (scan : List Triple) : Prop := scan.Pairwise fun t t' => ¬ TripleEq t t'
def SameKeys (rows : List Row) : Prop := ∀ r ∈ rows, ∀ r' ∈ rows, ∀ k, r.has k = r'.has k

theorem has_merge (a b : Row) (k : Bytes) : (a.merge b).has k = (a.has k || b.has k) := by
  rw [has_iff_get, has_iff_get, has_iff_get, get_merge]
  cases a.get k <;> simp

/-- Rows of different rows stay different after merging (all rows hold the same keys). -/
theorem merged_apart {r r' m m' : Row} (hk : ∀ k, r.has k = r'.has k) (hne : ¬ RowEq r r') : ¬ RowEq (r.merge m) (r'.merge m') := by
  intro he
  apply hne
  intro k
  have e := he k
  rw [get_merge, get_merge] at e
  cases hr : r.get k with
  | none =>
    have : r.has k = false := by rw [has_iff_get, hr]; rfl
    rw [get_none_of_not_has (by rw [← hk k]; exact this)]
  | some v =>
    have : r.has k = true := by rw [has_iff_get, hr]; rfl
    have h2 : r'.has k = true := by rw [← hk k]; exact this
    rw [has_iff_get] at h2
    cases hr' : r'.get k with
    | none => simp [hr'] at h2
    | some v' => simpa [hr, hr'] using e

/-- **One join step keeps the rows apart**: over a scan without repeated triples, a determined mandatory
    clause turns pairwise different rows (all holding the same keys) into pairwise different rows. -/
theorem joinClause_distinct (scan : List Triple) (hs : ScanDistinct scan) (glo ghi : Option Int) (c : Clause)
    (hd : Determined c) (hopt : c.optional = false) (rows : List Row) (hr : Distinct rows) (hk : SameKeys rows) :
    Distinct (joinClause scan glo ghi rows c) ∧ SameKeys (joinClause scan glo ghi rows c) := by
  have hjoin : joinClause scan glo ghi rows c = rows.flatMap fun r =>
      ((scan.filterMap (matchClause c (clauseWindow glo ghi c r))).filter (compatible r)).map r.merge := by
    unfold joinClause; simp [hopt]
  rw [hjoin]
  constructor
  · unfold Distinct
    rw [List.pairwise_flatMap]
    constructor
    · intro r _
      rw [List.pairwise_map]
      have base : (scan.filterMap (matchClause c (clauseWindow glo ghi c r))).Pairwise
          (fun m m' => compatible r m = true → compatible r m' = true → ¬ RowEq (r.merge m) (r.merge m')) := by
        rw [List.pairwise_filterMap]
        apply hs.imp
        intro t t' hne m hm m' hm' hc hc' he
        exact hne (row_determines_triple hd hopt hm hm'
          (merged_same (matchClause_specBind hm) (matchClause_specBind hm') hc hc' he))
      have := base.filter (compatible r)
      exact this.imp_of_mem (fun {a b} ha hb h => h (List.mem_filter.mp ha).2 (List.mem_filter.mp hb).2)
    · unfold Distinct at hr
      have hr' : rows.Pairwise (fun r r' => (∀ k, r.has k = r'.has k) ∧ ¬ RowEq r r') := by
        have := hr.imp_of_mem (S := fun r r' => (∀ k, r.has k = r'.has k) ∧ ¬ RowEq r r')
          (fun {a b} ha hb h => ⟨hk a ha b hb, h⟩)
        exact this
      apply hr'.imp
      intro r r' ⟨hkk, hne⟩ x hx y hy
      obtain ⟨m, _, rfl⟩ := List.mem_map.mp hx
      obtain ⟨m', _, rfl⟩ := List.mem_map.mp hy
      exact merged_apart hkk hne
  · intro x hx y hy k
    obtain ⟨r, hrm, hx⟩ := List.mem_flatMap.mp hx
    obtain ⟨r', hrm', hy⟩ := List.mem_flatMap.mp hy
    obtain ⟨m, hm, rfl⟩ := List.mem_map.mp hx
    obtain ⟨m', hm', rfl⟩ := List.mem_map.mp hy
    obtain ⟨t, _, hmt⟩ := List.mem_filterMap.mp (List.mem_filter.mp hm).1
    obtain ⟨t', _, hmt'⟩ := List.mem_filterMap.mp (List.mem_filter.mp hm').1
    rw [has_merge, has_merge, hk r hrm r' hrm' k, match_keys (matchClause_specBind hmt) (matchClause_specBind hmt') k]

/-- **One row per assignment.** Over a scan in which no triple occurs twice, the solutions of a pattern of
    determined mandatory clauses (every position a constant or shown in the row) are pairwise different rows:
    the reference's "one row per combination of matching triples" is "one row per assignment" there. -/
theorem solutions_distinct (scan : List Triple) (hs : ScanDistinct scan) (glo ghi : Option Int) (cs : List Clause)
    (hd : ∀ c ∈ cs, Determined c ∧ c.optional = false) : Distinct (solutions scan glo ghi cs) := by
  unfold solutions
  have init : Distinct [[]] ∧ SameKeys ([[]] : List Row) := by
    refine ⟨by simp [Distinct], ?_⟩
    intro r hr r' hr' k
    simp only [List.mem_singleton] at hr hr'
    rw [hr, hr']
  generalize ([[]] : List Row) = rows at init
  induction cs generalizing rows with
  | nil => exact init.1
  | cons c cs ih =>
    simp only [List.foldl_cons]
    have hc := hd c List.mem_cons_self
    exact ih (fun x hx => hd x (List.mem_cons_of_mem _ hx)) _
      (joinClause_distinct scan hs glo ghi c hc.1 hc.2 rows init.1 init.2)

end BW.Proofs.OnePerAssignment
