/-
The reference semantics is invariant under a consistent renaming of bindings (C14): renaming the
binding names of every clause and of the projection by an injective map ρ (that keeps "no name" as
"no name") renames the keys of every solution and changes nothing else.
-/
import BW.Spec.Query

namespace BW.Proofs.Rename
open BW.Model BW.Spec

/-- A consistent renaming: injective, and the absent name stays absent. -/
structure Renaming (ρ : Bytes → Bytes) : Prop where
  inj : ∀ a b, ρ a = ρ b → a = b
  nil : ∀ a, ρ a = [] ↔ a = []

def renRow (ρ : Bytes → Bytes) (r : Row) : Row := r.map fun p => (ρ p.1, p.2)

def renClause (ρ : Bytes → Bytes) (c : Clause) : Clause :=
  { c with
    sBinding := ρ c.sBinding, sAlias := ρ c.sAlias, sTypeAlias := ρ c.sTypeAlias, sIDAlias := ρ c.sIDAlias,
    pBinding := ρ c.pBinding, pAlias := ρ c.pAlias, pIDAlias := ρ c.pIDAlias, pAnchorBinding := ρ c.pAnchorBinding,
    pAnchorAlias := ρ c.pAnchorAlias, pLowerAlias := ρ c.pLowerAlias, pUpperAlias := ρ c.pUpperAlias,
    oBinding := ρ c.oBinding, oAlias := ρ c.oAlias, oTypeAlias := ρ c.oTypeAlias, oIDAlias := ρ c.oIDAlias,
    oAnchorBinding := ρ c.oAnchorBinding, oAnchorAlias := ρ c.oAnchorAlias, oLowerAlias := ρ c.oLowerAlias,
    oUpperAlias := ρ c.oUpperAlias }

def renProj (ρ : Bytes → Bytes) (p : Proj) : Proj := { p with binding := ρ p.binding, alias := ρ p.alias }

variable {ρ : Bytes → Bytes}

theorem beq_ren (h : Renaming ρ) (a b : Bytes) : (ρ a == ρ b) = (a == b) := by
  by_cases hab : a = b
  · subst hab; simp
  · have : ρ a ≠ ρ b := fun e => hab (h.inj a b e)
    rw [beq_eq_false_iff_ne.mpr this, beq_eq_false_iff_ne.mpr hab]

theorem get_ren (h : Renaming ρ) (r : Row) (k : Bytes) : (renRow ρ r).get (ρ k) = r.get k := by
  induction r with
  | nil => rfl
  | cons p r ih =>
    have e1 : (renRow ρ (p :: r)).get (ρ k) = if (p.1 == k) then some p.2 else (renRow ρ r).get (ρ k) := by
      simp only [renRow, Row.get, List.map_cons, List.find?_cons, beq_ren h]
      cases (p.1 == k) <;> rfl
    have e2 : Row.get (p :: r) k = if (p.1 == k) then some p.2 else Row.get r k := by
      simp only [Row.get, List.find?_cons]
      cases (p.1 == k) <;> rfl
    rw [e1, e2, ih]

theorem has_ren (h : Renaming ρ) (r : Row) (k : Bytes) : (renRow ρ r).has (ρ k) = r.has k := by
  induction r with
  | nil => rfl
  | cons p r ih =>
    simp only [renRow, Row.has, List.map_cons, List.any_cons, beq_ren h] at *
    rw [ih]

theorem set_ren (h : Renaming ρ) (r : Row) (k : Bytes) (v : Cell) : renRow ρ (r.set k v) = (renRow ρ r).set (ρ k) v := by
  unfold Row.set
  rw [has_ren h]
  split
  · simp only [renRow, List.map_map]
    apply List.map_congr_left
    intro p _
    simp only [Function.comp, beq_ren h]
    split <;> rfl
  · simp [renRow]

theorem merge_ren (h : Renaming ρ) (a b : Row) : renRow ρ (a.merge b) = (renRow ρ a).merge (renRow ρ b) := by
  unfold Row.merge
  simp only [renRow, List.map_append, List.filter_map, Function.comp_def]
  congr 2
  apply List.filter_congr
  intro p _
  have := has_ren h a p.1
  simp only [renRow] at this
  rw [this]

theorem bindSame_ren (h : Renaming ρ) (acc : Option Row) (k : Bytes) (c : Cell) :
    bindSame (acc.map (renRow ρ)) (ρ k) c = (bindSame acc k c).map (renRow ρ) := by
  cases acc with
  | none => rfl
  | some r =>
    simp only [bindSame, Option.map_some, h.nil]
    by_cases hk : k = []
    · simp [hk]
    · simp only [hk, if_false, get_ren h]
      cases hg : r.get k with
      | none => simp [renRow]
      | some old =>
        simp only
        split
        · simp [set_ren h]
        · rfl

theorem steps_ren (h : Renaming ρ) (steps : List (Bytes × Option Cell)) (acc : Option Row) :
    (steps.map fun s => (ρ s.1, s.2)).foldl bindStep (acc.map (renRow ρ)) = (steps.foldl bindStep acc).map (renRow ρ) := by
  induction steps generalizing acc with
  | nil => rfl
  | cons s steps ih =>
    obtain ⟨k, v⟩ := s
    simp only [List.map_cons, List.foldl_cons, bindStep, h.nil]
    by_cases hs : k = []
    · simp only [hs, if_true]; exact ih acc
    · simp only [hs, if_false]
      cases v with
      | none =>
        simp only
        have := ih none
        simpa using this
      | some cell =>
        simp only
        rw [bindSame_ren h]
        exact ih _

theorem matchClause_ren (h : Renaming ρ) (c : Clause) (w : Window) (t : Triple) :
    matchClause (renClause ρ c) w t = (matchClause c w t).map (renRow ρ) := by
  have hc : constsMatch (renClause ρ c) t = constsMatch c t := rfl
  unfold matchClause
  simp only [apply_ite (Option.map (renRow ρ)), Option.map_none, hc]
  have hs : clauseSteps (renClause ρ c) t = (clauseSteps c t).map fun s => (ρ s.1, s.2) := rfl
  have leaf := steps_ren h (clauseSteps c t) (some [])
  simp only [Option.map_some, renRow, List.map_nil] at leaf
  rw [hs, leaf]
  simp only [renClause, h.nil]
  rfl

theorem rowTime_ren (h : Renaming ρ) (r : Row) (k : Bytes) : rowTime (renRow ρ r) (ρ k) = rowTime r k := by
  unfold rowTime; rw [get_ren h]

theorem clauseWindow_ren (h : Renaming ρ) (glo ghi : Option Int) (c : Clause) (r : Row) :
    clauseWindow glo ghi (renClause ρ c) (renRow ρ r) = clauseWindow glo ghi c r := by
  unfold clauseWindow
  simp only [renClause, rowTime_ren h, ne_eq, h.nil]

theorem compatible_ren (h : Renaming ρ) (a b : Row) : compatible (renRow ρ a) (renRow ρ b) = compatible a b := by
  unfold compatible
  simp only [renRow, List.all_map]
  congr 1
  funext p
  have := get_ren h b p.1
  simp only [renRow] at this
  simp only [Function.comp, this]

theorem contains_ren (h : Renaming ρ) (l : List Bytes) (k : Bytes) : (l.map ρ).contains (ρ k) = l.contains k := by
  induction l with
  | nil => rfl
  | cons a l ih => simp only [List.map_cons, List.contains_cons, ih, beq_ren h]

theorem dedup_ren (h : Renaming ρ) (l : List Bytes) : dedup (l.map ρ) = (dedup l).map ρ := by
  unfold dedup
  suffices H : ∀ acc : List Bytes, (l.map ρ).foldl (fun acc b => if acc.contains b then acc else acc ++ [b]) (acc.map ρ)
      = (l.foldl (fun acc b => if acc.contains b then acc else acc ++ [b]) acc).map ρ from H []
  induction l with
  | nil => intro acc; rfl
  | cons a l ih =>
    intro acc
    simp only [List.map_cons, List.foldl_cons, contains_ren h]
    split
    · exact ih acc
    · have := ih (acc ++ [a])
      simpa using this

theorem filter_ne_nil_ren (h : Renaming ρ) (l : List Bytes) : (l.map ρ).filter (· ≠ []) = (l.filter (· ≠ [])).map ρ := by
  induction l with
  | nil => rfl
  | cons a l ih =>
    simp only [List.map_cons, List.filter_cons, ne_eq, h.nil, decide_not]
    split <;> simp_all

theorem bindings_ren (h : Renaming ρ) (c : Clause) : (renClause ρ c).bindings = c.bindings.map ρ := by
  unfold Clause.bindings
  rw [← dedup_ren h, ← filter_ne_nil_ren h]
  rfl

theorem flatMap_congr' {α β : Type} (l : List α) (f g : α → List β) (h : ∀ a ∈ l, f a = g a) : l.flatMap f = l.flatMap g := by
  induction l with
  | nil => rfl
  | cons a l ih =>
    simp only [List.flatMap_cons]
    rw [h a (by simp), ih fun x hx => h x (List.mem_cons_of_mem _ hx)]

theorem joinClause_ren (h : Renaming ρ) (scan : List Triple) (glo ghi : Option Int) (rows : List Row) (c : Clause) :
    joinClause scan glo ghi (rows.map (renRow ρ)) (renClause ρ c) = (joinClause scan glo ghi rows c).map (renRow ρ) := by
  unfold joinClause
  rw [List.flatMap_map, List.map_flatMap]
  apply flatMap_congr'
  intro r _
  have hms : (scan.filterMap (matchClause (renClause ρ c) (clauseWindow glo ghi (renClause ρ c) (renRow ρ r)))).filter (compatible (renRow ρ r))
      = ((scan.filterMap (matchClause c (clauseWindow glo ghi c r))).filter (compatible r)).map (renRow ρ) := by
    rw [clauseWindow_ren h]
    have : matchClause (renClause ρ c) (clauseWindow glo ghi c r) = fun t => (matchClause c (clauseWindow glo ghi c r) t).map (renRow ρ) := by
      funext t; exact matchClause_ren h c _ t
    rw [this, ← List.map_filterMap, List.filter_map]
    congr 1
    apply List.filter_congr
    intro m _
    exact compatible_ren h r m
  simp only [hms]
  have hopt : (renClause ρ c).optional = c.optional := rfl
  rw [hopt]
  by_cases hc : c.optional = true
  · simp only [hc, if_true, List.isEmpty_map]
    split
    · simp only [List.map_cons, List.map_nil]
      rw [merge_ren h, bindings_ren h]
      congr 2
      simp only [renRow, List.filter_map, List.map_map]
      congr 1
      apply List.filter_congr
      intro k _
      have := has_ren h r k
      simp only [renRow] at this
      simp [Function.comp, this]
    · simp only [List.map_map]
      apply List.map_congr_left
      intro m _
      exact (merge_ren h r m).symm
  · simp only [hc, Bool.false_eq_true, if_false, List.map_map]
    apply List.map_congr_left
    intro m _
    exact (merge_ren h r m).symm

/-- Renaming the bindings of a pattern consistently renames the keys of its solutions and changes
    nothing else (same number of solutions, same values, same order). -/
theorem solutions_ren (h : Renaming ρ) (scan : List Triple) (glo ghi : Option Int) (cs : List Clause) :
    solutions scan glo ghi (cs.map (renClause ρ)) = (solutions scan glo ghi cs).map (renRow ρ) := by
  unfold solutions
  suffices H : ∀ rows : List Row, (cs.map (renClause ρ)).foldl (joinClause scan glo ghi) (rows.map (renRow ρ))
      = (cs.foldl (joinClause scan glo ghi) rows).map (renRow ρ) from H [[]]
  induction cs with
  | nil => intro rows; rfl
  | cons c cs ih =>
    intro rows
    simp only [List.map_cons, List.foldl_cons]
    rw [joinClause_ren h]
    exact ih _

theorem project_ren (h : Renaming ρ) (ps : List Proj) (r : Row) :
    project (ps.map (renProj ρ)) (renRow ρ r) = renRow ρ (project ps r) := by
  unfold project
  suffices H : ∀ out : Row, (ps.map (renProj ρ)).foldl (fun out p => if p.out = [] then out else out.set p.out (((renRow ρ r).get p.binding).getD .null)) (renRow ρ out)
      = renRow ρ (ps.foldl (fun out p => if p.out = [] then out else out.set p.out ((r.get p.binding).getD .null)) out) from H []
  induction ps with
  | nil => intro out; rfl
  | cons p ps ih =>
    intro out
    have hout : (renProj ρ p).out = ρ p.out := by
      simp only [Proj.out, renProj, ne_eq, h.nil]
      split <;> rfl
    simp only [List.map_cons, List.foldl_cons, hout, h.nil]
    have hb : (renProj ρ p).binding = ρ p.binding := rfl
    rw [hb, get_ren h]
    split
    · exact ih out
    · rw [← set_ren h]; exact ih _

end BW.Proofs.Rename
