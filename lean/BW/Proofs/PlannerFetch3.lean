/-
`simpleFetch` against the reference, all cases (towards C03): the fully specified clause (existence probe
per graph) and `simpleFetch_spec`, the statement for every clause.
-/
import BW.Proofs.PlannerFetch2
open BW.Model BW.Spec BW.Proofs.ClauseOrder BW.Proofs.Store BW.Proofs.Lookup

namespace BW.Proofs.Planner

/-- The fully specified case of `simpleFetch`: an existence probe per graph. -/
theorem simpleFetch_full (F : Facts) (gs : List QGraph) (c : Clause) (hid : IdAliasPlain c) (lo : QOpts)
    (s : Node) (p : Pred) (o : Obj) (hs : c.s = some s) (hp : c.p = some p) (ho : c.o = some o) :
    ∃ ko, preObj false o = some ko ∧
    simpleFetch F gs c lo 0 = .ok
      (if (fetchWindow lo c).holds p = true then
        gs.flatMap fun q =>
          if q.g.exist { ks := preNode s, pid := p.id, pnano := p.anchor.map (·.nanos), ko := ko } = true
          then [(⟨s, p, o⟩ : Triple)].filterMap (fetchRow c) else []
       else []) := by
  obtain ⟨ko, hko⟩ := preObj_false_some o
  refine ⟨ko, hko, ?_⟩
  unfold simpleFetch
  simp only [hs, hp, ho, hko]
  rw [inTimeBounds_holds]
  by_cases hw : (fetchWindow lo c).holds p = true
  · simp only [hw, Bool.not_true, Bool.false_eq_true, if_false, if_true]
    rw [foldlM_flatMap _ (fun q => if q.g.exist { ks := preNode s, pid := p.id, pnano := p.anchor.map (·.nanos), ko := ko } = true
          then [(⟨s, p, o⟩ : Triple)].filterMap (fetchRow c) else []) gs _ []]
    · simp
    · intro acc q _
      by_cases he : q.g.exist { ks := preNode s, pid := p.id, pnano := p.anchor.map (·.nanos), ko := ko } = true
      · simp only [he, if_true, addTriples_eq c hid, bind, Except.bind, pure, Except.pure]
      · simp only [he, Bool.false_eq_true, if_false, pure, Except.pure, List.append_nil]
  · simp [hw]

theorem consts_tripleEq (c : Clause) (s : Node) (p : Pred) (o : Obj) (hs : c.s = some s) (hp : c.p = some p)
    (ho : c.o = some o) (t : Triple) : constsMatch c t = true ↔ TripleEq ⟨s, p, o⟩ t := by
  unfold constsMatch TripleEq
  simp only [hs, hp, ho, Bool.and_eq_true, beq_iff_eq, and_assoc]

theorem fullRows_spec (q : QGraph) (hq : Faithful q) (c : Clause) (lo : QOpts)
    (s : Node) (p : Pred) (o : Obj) (hs : c.s = some s) (hp : c.p = some p) (ho : c.o = some o)
    (ko : Bytes) (hko : preObj false o = some ko)
    (hapS : ∀ t ∈ scanOf q, preNode s = preNode t.s → s = t.s)
    (hapO : ∀ t ∈ scanOf q, preObj false o = preObj false t.o → objSame o t.o = true)
    (hapA : ∀ t ∈ scanOf q, (p.anchor.map (·.nanos)).map wrap64 = (t.p.anchor.map (·.nanos)).map wrap64 →
      p.anchor.map (·.nanos) = t.p.anchor.map (·.nanos))
    (hw : (fetchWindow lo c).holds p = true) :
    SetEq (if q.g.exist { ks := preNode s, pid := p.id, pnano := p.anchor.map (·.nanos), ko := ko } = true
            then [(⟨s, p, o⟩ : Triple)].filterMap (fetchRow c) else [])
      (specRows c (fetchWindow lo c) (scanOf q)) := by
  have htight : Tight c (fetchWindow lo c) := tight_clauseWindow _ _ c []
  have memR : ∀ r, r ∈ specRows c (fetchWindow lo c) (scanOf q) ↔ ∃ v ∈ q.g.master, ∃ t, q.uni v.id = some t ∧
      matchClause c (fetchWindow lo c) t = some r ∧ r.isEmpty = false := by
    intro r
    unfold specRows scanOf QGraph.triples
    simp only [List.mem_filter, List.mem_filterMap, Bool.not_eq_true']
    constructor
    · rintro ⟨⟨t, ⟨v, hv, hu⟩, hmc⟩, he⟩; exact ⟨v, hv, t, hu, hmc, he⟩
    · rintro ⟨v, hv, t, hu, hmc, he⟩; exact ⟨⟨t, ⟨v, hv, hu⟩, hmc⟩, he⟩
  constructor
  · intro r hr
    by_cases he : q.g.exist { ks := preNode s, pid := p.id, pnano := p.anchor.map (·.nanos), ko := ko } = true
    · simp only [he, if_true, List.filterMap_cons, List.filterMap_nil] at hr
      cases hf : fetchRow c ⟨s, p, o⟩ with
      | none => simp [hf] at hr
      | some r0 =>
        simp only [hf, List.mem_singleton] at hr
        subst hr
        unfold Graph.exist at he
        obtain ⟨v, hv, hk⟩ := List.any_eq_true.mp he
        have hk' : v.key = (preNode s, p.id, (p.anchor.map (·.nanos)).map wrap64, ko) := by simpa [TView.key] using hk
        obtain ⟨t, hu, hks, hpid, hpn, hkot⟩ := hq v hv
        have htm : t ∈ scanOf q := by
          unfold scanOf QGraph.triples; exact List.mem_filterMap.mpr ⟨v, hv, hu⟩
        simp only [TView.key, Prod.mk.injEq] at hk'
        obtain ⟨k1, k2, k3, k4⟩ := hk'
        have e1 : s = t.s := hapS t htm (by rw [← hks, k1])
        have e2 : predSame p t.p = true := by
          have := hapA t htm (by rw [← hpn, k3])
          simp [predSame, ← hpid, k2, this]
        have e3 : objSame o t.o = true := hapO t htm (by rw [hko, hkot, k4])
        have hte : TripleEq ⟨s, p, o⟩ t := ⟨e1, e2, e3⟩
        have heq := fetchRow_congr c hte
        rw [hf] at heq
        cases hft : fetchRow c t with
        | none => rw [hft] at heq; exact heq.elim
        | some r' =>
          rw [hft] at heq
          refine ⟨r', (memR r').mpr ⟨v, hv, t, hu, ?_⟩, heq.1⟩
          refine (matchClause_fetchRow c _ t htight r').mpr ⟨(consts_tripleEq c s p o hs hp ho t).mpr hte, ?_, hft⟩
          rw [← holds_congr _ e2]; exact hw
    · simp [he] at hr
  · intro r' hr'
    obtain ⟨v, hv, t, hu, hmc, hne⟩ := (memR r').mp hr'
    obtain ⟨h1, _, hft⟩ := (matchClause_fetchRow c _ t htight r').mp ⟨hmc, hne⟩
    have hte := (consts_tripleEq c s p o hs hp ho t).mp h1
    obtain ⟨t0, hu0, hks, hpid, hpn, hkot⟩ := hq v hv
    rw [hu] at hu0; injection hu0 with hu0; subst hu0
    have he : q.g.exist { ks := preNode s, pid := p.id, pnano := p.anchor.map (·.nanos), ko := ko } = true := by
      unfold Graph.exist
      apply List.any_eq_true.mpr
      refine ⟨v, hv, ?_⟩
      have ⟨p1, p2⟩ := predSame_parts hte.2.1
      have := objSame_preObj hte.2.2
      rw [hko, hkot] at this
      injection this with this
      simp [TView.key, hks, hpid, hpn, ← hte.1, ← p1, ← p2, this]
    have heq := fetchRow_congr c hte
    rw [hft] at heq
    cases hf : fetchRow c ⟨s, p, o⟩ with
    | none => rw [hf] at heq; exact heq.elim
    | some r =>
      rw [hf] at heq
      exact ⟨r, by simp [he, hf], heq.1⟩

theorem specRows_outside (c : Clause) (w : Window) (p : Pred) (hp : c.p = some p) (hw : w.holds p = false)
    (scan : List Triple) : specRows c w scan = [] := by
  unfold specRows
  have : scan.filterMap (matchClause c w) = [] := by
    apply List.filterMap_eq_nil_iff.mpr
    intro t _
    unfold matchClause
    by_cases hc : constsMatch c t = true
    · have hps : predSame p t.p = true := by
        unfold constsMatch at hc
        simp only [hp, Bool.and_eq_true] at hc
        exact hc.1.2
      have : w.holds t.p = false := by rw [← holds_congr w hps]; exact hw
      simp only [hc, this, Bool.not_true, Bool.false_eq_true, if_false, Bool.not_false, if_true]
      split <;> (try rfl)
      split <;> rfl
    · have : constsMatch c t = false := by simpa using hc
      simp [this]
  rw [this]; rfl

/-- The graphs a statement reads: index invariant (every reachable graph, C01) and views of their triples. -/
def GraphsOK (F : Facts) (gs : List QGraph) : Prop := ∀ q ∈ gs, Inv F q.g ∧ Faithful q

/-- **The fetch is the reference's match.** On graphs satisfying the index invariant, for every clause
    (any of its positions fixed or open) and every window, `simpleFetch` succeeds and its rows are — as a
    set, up to the representation of anchors — the rows the reference's `matchClause` binds on a scan of
    the listed graphs (rows that bind nothing are not kept by a table). -/
theorem simpleFetch_spec {F : Facts} (hF : Facts.WF F = true) (gs : List QGraph) (hg : GraphsOK F gs)
    (c : Clause) (hid : IdAliasPlain c) (lo : QOpts) (hfil : lo.filter = none)
    (hap : Apart gs c) (hapA : AnchorsApart gs c) :
    ∃ rows, simpleFetch F gs c lo 0 = .ok rows ∧
      SetEq rows (specRows c (fetchWindow lo c) (gs.flatMap scanOf)) := by
  rw [specRows_flatMap]
  by_cases hfull : c.s.isSome ∧ c.p.isSome ∧ c.o.isSome
  · obtain ⟨h1, h2, h3⟩ := hfull
    obtain ⟨s, hs⟩ := Option.isSome_iff_exists.mp h1
    obtain ⟨p, hp⟩ := Option.isSome_iff_exists.mp h2
    obtain ⟨o, ho⟩ := Option.isSome_iff_exists.mp h3
    obtain ⟨ko, hko, hf⟩ := simpleFetch_full F gs c hid lo s p o hs hp ho
    refine ⟨_, hf, ?_⟩
    by_cases hw : (fetchWindow lo c).holds p = true
    · simp only [hw, if_true]
      apply SetEq.flatMap
      intro q hq
      exact fullRows_spec q (hg q hq).2 c lo s p o hs hp ho ko hko
        (fun t ht => hap.1 s hs q hq t ht) (fun t ht => hap.2 o ho q hq t ht) (fun t ht => hapA p hp q hq t ht) hw
    · have hw' : (fetchWindow lo c).holds p = false := by simpa using hw
      simp only [hw', Bool.false_eq_true, if_false]
      have : (gs.flatMap fun q => specRows c (fetchWindow lo c) (scanOf q)) = [] := by
        apply List.flatMap_eq_nil_iff.mpr
        intro q _
        exact specRows_outside c _ p hp hw' _
      rw [this]
      exact SetEq.refl []
  · obtain ⟨m, a, rb, _, hm, hrb, hf⟩ := simpleFetch_partial hF gs (fun q hq => (hg q hq).1) c hid lo hfil c.s c.p c.o rfl rfl rfl hfull
    refine ⟨_, hf, ?_⟩
    apply SetEq.flatMap
    intro q hq
    exact graphRows_spec q (hg q hq).2 c lo m a rb hm hrb (fun s hs => hap.1 s hs q hq) (fun o ho => hap.2 o ho q hq)

end BW.Proofs.Planner
