/-
ORDER BY lists with repeated keys (C12): `orderByBindingsChecker` rewrites the list to the first occurrence of
each key; comparing two rows by the rewritten list is comparing them by the list as written (`compareRows_dup`,
`dedup_compares_same`), hence the same sort.
-/
import BW.Model.Hooks
import BW.Model.QueryPost
open BW.Model

namespace BW.Proofs.HooksOrder
open BW.Model.Hooks

/-- A key that was already compared (same key, same direction) cannot decide any more. -/
theorem compareRows_dup (S : Strs) (pre : List (Bytes × Bool)) (k : Bytes) (d : Bool) (post : List (Bytes × Bool))
    (hk : (k, d) ∈ pre) (a b : Row) :
    compareRows S (pre ++ (k, d) :: post) a b = compareRows S (pre ++ post) a b := by
  -- generalised: once `keyOrd k d` is known to be `eq`, the duplicate is skipped
  have skip : ∀ (l : List (Bytes × Bool)), keyOrd S k d a b = .eq →
      compareRows S (l ++ (k, d) :: post) a b = compareRows S (l ++ post) a b := by
    intro l he
    induction l with
    | nil => simp only [List.nil_append, compareRows, he]
    | cons q l ih =>
      obtain ⟨k2, d2⟩ := q
      simp only [List.cons_append, compareRows]
      cases keyOrd S k2 d2 a b <;> first | exact ih | rfl
  induction pre with
  | nil => cases hk
  | cons p pre ih =>
    obtain ⟨k', d'⟩ := p
    simp only [List.cons_append, compareRows]
    rcases List.mem_cons.mp hk with e | hm
    · injection e with e1 e2; subst e1; subst e2
      cases he : keyOrd S k d a b with
      | eq => exact skip pre he
      | lt => rfl
      | gt => rfl
    · cases keyOrd S k' d' a b <;> first | exact ih hm | rfl

end BW.Proofs.HooksOrder

namespace BW.Proofs.HooksOrder
open BW.Model.Hooks

theorem dedup_same_go (S : Strs) (a b : Row) : ∀ (rest acc : List (Bytes × Bool)), consistent acc rest = true →
    compareRows S (acc ++ rest) a b = compareRows S (dedupCfg acc rest) a b := by
  intro rest
  induction rest with
  | nil => intro acc _; simp [dedupCfg]
  | cons p rest ih =>
    intro acc hc
    obtain ⟨k, d⟩ := p
    simp only [consistent] at hc
    simp only [dedupCfg]
    cases hf : acc.find? (fun x => x.1 == k) with
    | some q =>
      obtain ⟨k', d'⟩ := q
      simp only [hf, Bool.and_eq_true, beq_iff_eq] at hc
      have hmem := List.mem_of_find?_eq_some hf
      have hk : k' = k := by have := List.find?_some hf; simpa using this
      have hany : acc.any (fun x => x.1 == k) = true := List.any_eq_true.mpr ⟨(k', d'), hmem, by simp [hk]⟩
      simp only [hany, if_true]
      rw [compareRows_dup S acc k d rest (by rw [← hk, ← hc.1]; exact hmem)]
      exact ih acc hc.2
    | none =>
      simp only [hf] at hc
      have hany : acc.any (fun x => x.1 == k) = false := by
        cases h : acc.any (fun x => x.1 == k) with
        | false => rfl
        | true =>
          obtain ⟨x, hx, hxk⟩ := List.any_eq_true.mp h
          have := List.find?_eq_none.mp hf x hx
          simp [hxk] at this
      simp only [hany, Bool.false_eq_true, if_false]
      have := ih (acc ++ [(k, d)]) hc
      rw [List.append_assoc] at this
      exact this

/-- **Repeated ORDER BY keys.** When the checker accepts a key list (no key with two directions), sorting by
    the list it rewrites — first occurrence of each key — compares every two rows exactly as the list that was
    written: the rewrite changes nothing. -/
theorem dedup_compares_same (S : Strs) (cfg cfg' : List (Bytes × Bool)) (h : orderCheck cfg = some cfg') (a b : Row) :
    compareRows S cfg a b = compareRows S cfg' a b := by
  unfold orderCheck at h
  split at h
  · rename_i hc
    injection h with h; subst h
    have := dedup_same_go S a b cfg [] hc
    simpa using this
  · cases h

theorem dedup_sorts_same (S : Strs) (cfg cfg' : List (Bytes × Bool)) (h : orderCheck cfg = some cfg') (rows : List Row)
    (hne : cfg ≠ []) : sortRows S cfg rows = sortRows S cfg' rows := by
  have hle : rowLe S cfg = rowLe S cfg' := by
    funext a b; unfold rowLe; rw [dedup_compares_same S cfg cfg' h a b]
  have hne' : cfg' ≠ [] := by
    unfold orderCheck at h
    split at h
    · injection h with h; subst h
      cases cfg with
      | nil => exact absurd rfl hne
      | cons p rest =>
        obtain ⟨k, d⟩ := p
        simp only [dedupCfg, List.any_nil, Bool.false_eq_true, if_false, List.nil_append]
        -- the accumulator only grows
        have grow : ∀ (rest acc : List (Bytes × Bool)), acc ≠ [] → dedupCfg acc rest ≠ [] := by
          intro rest
          induction rest with
          | nil => intro acc h; exact h
          | cons q rest ih =>
            intro acc h
            simp only [dedupCfg]
            split
            · exact ih acc h
            · exact ih _ (by simp)
        exact grow rest _ (by simp)
    · cases h
  unfold sortRows
  have e1 : cfg.isEmpty = false := by cases cfg <;> simp_all
  have e2 : cfg'.isEmpty = false := by cases cfg' <;> simp_all
  simp only [e1, e2, Bool.false_eq_true, if_false, hle]

end BW.Proofs.HooksOrder
