/-
Towards C03: the reference's join with object intervals read from the row (`joinClauseO`) — one row of it is the
plain `specJoin` of the clause that row sees; names, key uniqueness and congruence under equality of rows up to anchor
representation carry over.
-/
import BW.Proofs.PlannerStep9
set_option linter.unusedSimpArgs false
open BW.Model BW.Spec BW.Proofs.ClauseOrder BW.Proofs.Store BW.Proofs.Lookup

namespace BW.Proofs.Planner

variable {gs : List QGraph}

/-- One row of `joinClauseO` is the plain join of the clause as the row sees it (the aliases stay in place). -/
theorem specJoinO_eq (scan : List Triple) (glo ghi : Option Int) (c : Clause) (r : Row) :
    specJoinO scan glo ghi c r = specJoin scan glo ghi (withRowObjBounds c r) r := by
  unfold specJoinO specJoin
  rw [withRowObjBounds_eq]
  rfl

theorem withRowObjBounds_bindings (c : Clause) (r : Row) : (withRowObjBounds c r).bindings = c.bindings := by
  rw [withRowObjBounds_eq]; rfl

theorem joinClause_single (scan : List Triple) (glo ghi : Option Int) (c : Clause) (r : Row) :
    joinClause scan glo ghi [r] c = specJoin scan glo ghi c r := by
  rw [joinClause_eq]; simp

theorem joinClauseO_keys (scan : List Triple) (glo ghi : Option Int) (rows : List Row) (c : Clause) (x : Row)
    (hx : x ∈ joinClauseO scan glo ghi rows c) (k : Bytes) (hk : x.has k = true) :
    (∃ r ∈ rows, r.has k = true) ∨ k ∈ c.bindings := by
  rw [joinClauseO_flat] at hx
  obtain ⟨r, hr, hxr⟩ := List.mem_flatMap.mp hx
  rw [specJoinO_eq, ← joinClause_single] at hxr
  rcases joinClause_keys scan glo ghi [r] _ x hxr k hk with ⟨r', hr', h⟩ | h
  · simp only [List.mem_singleton] at hr'; subst hr'
    exact Or.inl ⟨r', hr, h⟩
  · rw [withRowObjBounds_bindings] at h; exact Or.inr h

theorem objAliases_in_bindings (c : Clause) :
    (c.oLowerAlias ≠ [] → c.oLowerAlias ∈ c.bindings) ∧ (c.oUpperAlias ≠ [] → c.oUpperAlias ∈ c.bindings) := by
  constructor <;> intro h <;> unfold Clause.bindings <;> apply mem_dedup_of_mem <;> apply List.mem_filter.mpr <;>
    exact ⟨by simp, by simpa using h⟩

theorem flatMap_congr' {α β : Type} (l : List α) (f g : α → List β) (h : ∀ a ∈ l, f a = g a) : l.flatMap f = l.flatMap g := by
  induction l with
  | nil => rfl
  | cons a l ih =>
    simp only [List.flatMap_cons]
    rw [h a List.mem_cons_self, ih (fun x hx => h x (List.mem_cons_of_mem _ hx))]

/-- Rows without the bound aliases see the clause itself (when an alias stands in place of a constant bound). -/
theorem withRowObjBounds_lacking (c : Clause) (r : Row)
    (hex : (c.oLowerAlias ≠ [] → c.oLower = none) ∧ (c.oUpperAlias ≠ [] → c.oUpper = none))
    (h1 : c.oLowerAlias ≠ [] → r.has c.oLowerAlias = false) (h2 : c.oUpperAlias ≠ [] → r.has c.oUpperAlias = false) :
    withRowObjBounds c r = c := by
  have hget : ∀ k, r.has k = false → rowTimeT r k = none := by
    intro k hk
    unfold rowTimeT
    cases hg : r.get k with
    | none => rfl
    | some v =>
      have hm := mem_of_get _ _ _ hg
      have : r.has k = true := by unfold Row.has; exact List.any_eq_true.mpr ⟨_, hm, by simp⟩
      rw [hk] at this; cases this
  cases c
  rename_i lo hi la ua _
  unfold withRowObjBounds
  simp only at hex h1 h2 ⊢
  by_cases e1 : la = [] <;> by_cases e2 : ua = []
  · simp [e1, e2]
  · simp [e1, e2, hget ua (h2 e2), hex.2 e2]
  · simp [e1, e2, hget la (h1 e1), hex.1 e1]
  · simp [e1, e2, hget la (h1 e1), hget ua (h2 e2), hex.1 e1, hex.2 e2]

theorem joinClauseO_lacking (scan : List Triple) (glo ghi : Option Int) (rows : List Row) (c : Clause)
    (hex : (c.oLowerAlias ≠ [] → c.oLower = none) ∧ (c.oUpperAlias ≠ [] → c.oUpper = none))
    (h : ∀ r ∈ rows, ∀ k ∈ c.bindings, r.has k = false) :
    joinClauseO scan glo ghi rows c = joinClause scan glo ghi rows c := by
  rw [joinClauseO_flat, joinClause_eq]
  apply flatMap_congr'
  intro r hr
  rw [specJoinO_eq, withRowObjBounds_lacking c r hex]
  · intro hne
    exact h r hr _ ((objAliases_in_bindings c).1 hne)
  · intro hne
    exact h r hr _ ((objAliases_in_bindings c).2 hne)

end BW.Proofs.Planner
