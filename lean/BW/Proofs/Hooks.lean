/-
The WHERE-clause hooks (`BW.Model.Hooks`): they keep no state between statements (`hooks_stateless`, C18), and
a clause means what its tokens say (`clause_denote`, C03): constants, bindings, bounds, anchor bindings and
aliases each land in the field of their position, for every clause of the grammar's shape.
-/
import BW.Model.Hooks
open BW.Model BW.Model.Hooks

namespace BW.Proofs.Hooks

/-! ### The hooks keep no state between statements (C18) -/

/-- Two states of the hook closures that a new statement cannot tell apart. -/
def SameFor (stmt : Nat) (h h' : HState) : Prop := h.enter stmt = h'.enter stmt
def SameForB (stmt : Nat) (b b' : BState) : Prop := b.enter stmt = b'.enter stmt
def SameForD (stmt : Nat) (a a' : DAcc) : Prop := a.enter stmt = a'.enter stmt

def Sim (w w' : WState) : Prop :=
  w.stmt = w'.stmt ∧ w.working = w'.working ∧ w.pattern = w'.pattern ∧
  SameFor w.stmt w.hs w'.hs ∧ SameFor w.stmt w.hp w'.hp ∧ SameFor w.stmt w.ho w'.ho ∧
  SameFor w.stmt w.hv w'.hv ∧ SameForB w.stmt w.hb w'.hb ∧ SameForD w.stmt w.da w'.da ∧
  w.wcc = w'.wcc ∧ w.head = w'.head

theorem enter_enter (h : HState) (s : Nat) : (h.enter s).enter s = h.enter s := by
  unfold HState.enter
  by_cases hc : h.cur = s <;> simp [hc]

theorem enter_cur (h : HState) (s : Nat) : (h.enter s).cur = s := by
  unfold HState.enter
  by_cases hc : h.cur = s <;> simp [hc]

theorem benter_cur (b : BState) (s : Nat) : (b.enter s).cur = s := by
  unfold BState.enter
  by_cases hc : b.cur = s <;> simp [hc]

theorem wstep_sim {w w' : WState} (h : Sim w w') (e : HEv) :
    (wstep w e = none ∧ wstep w' e = none) ∨ ∃ v v', wstep w e = some v ∧ wstep w' e = some v' ∧ Sim v v' := by
  obtain ⟨h1, h2, h3, h4, h5, h6, h7, h8, h9, h10, h11⟩ := h
  cases e with
  | init => exact Or.inr ⟨_, _, rfl, rfl, h1, rfl, h3, h4, h5, h6, h7, h8, h9, h10, h11⟩
  | next =>
    refine Or.inr ⟨_, _, rfl, rfl, h1, rfl, ?_, h4, h5, h6, h7, h8, h9, h10, h11⟩
    simp only [h2, h3]
  | orderCheck =>
    simp only [wstep]
    rw [← h11]
    cases orderCheck w.head.order with
    | none => exact Or.inl ⟨rfl, rfl⟩
    | some o => exact Or.inr ⟨_, _, rfl, rfl, h1, h2, h3, h4, h5, h6, h7, h8, h9, h10, rfl⟩
  | flushVars =>
    refine Or.inr ⟨_, _, rfl, rfl, h1, h2, h3, h4, h5, h6, h7, h8, h9, h10, ?_⟩
    show w.head.flush = w'.head.flush
    rw [h11]
  | bindType k =>
    refine Or.inr ⟨_, _, rfl, rfl, h1, h2, h3, h4, h5, h6, h7, h8, h9, h10, ?_⟩
    show ({ w.head with kind := k } : Head) = { w'.head with kind := k }
    rw [h11]
  | cInit => exact Or.inr ⟨_, _, rfl, rfl, h1, h2, h3, h4, h5, h6, h7, h8, h9, rfl, h11⟩
  | cNext =>
    refine Or.inr ⟨_, _, rfl, rfl, h1, h2, h3, h4, h5, h6, h7, h8, h9, rfl, ?_⟩
    show ({ w.head with ccs := closeClause w.head.ccs w.wcc } : Head) = { w'.head with ccs := closeClause w'.head.ccs w'.wcc }
    rw [h10, h11]
  | cPair =>
    simp only [wstep]
    rw [← h10]
    cases w.wcc with
    | none => exact Or.inl ⟨rfl, rfl⟩
    | some c => exact Or.inr ⟨_, _, rfl, rfl, h1, h2, h3, h4, h5, h6, h7, h8, h9, rfl, h11⟩
  | tok part tk =>
    cases part with
    | none => exact Or.inr ⟨_, _, rfl, rfl, h1, h2, h3, h4, h5, h6, h7, h8, h9, h10, h11⟩
    | order =>
      refine Or.inr ⟨_, _, rfl, rfl, h1, h2, h3, h4, h5, h6, h7, h8, h9, h10, ?_⟩
      show ({ w.head with order := orderStep w.head.order tk } : Head) = { w'.head with order := orderStep w'.head.order tk }
      rw [h11]
    | group =>
      refine Or.inr ⟨_, _, rfl, rfl, h1, h2, h3, h4, h5, h6, h7, h8, h9, h10, ?_⟩
      show groupStep w.head tk = groupStep w'.head tk
      rw [h11]
    | inGraphs =>
      simp only [wstep]
      rw [← h11]
      cases graphStep w.head tk with
      | none => exact Or.inl ⟨rfl, rfl⟩
      | some hd => exact Or.inr ⟨_, _, rfl, rfl, h1, h2, h3, h4, h5, h6, h7, h8, h9, h10, rfl⟩
    | limit =>
      simp only [wstep]
      rw [← h11]
      cases limitStep w.head tk with
      | none => exact Or.inl ⟨rfl, rfl⟩
      | some hd => exact Or.inr ⟨_, _, rfl, rfl, h1, h2, h3, h4, h5, h6, h7, h8, h9, h10, rfl⟩
    | graphs =>
      simp only [wstep]
      rw [← h11]
      cases namesStep w.head.graphNames tk with
      | none => exact Or.inl ⟨rfl, rfl⟩
      | some l => exact Or.inr ⟨_, _, rfl, rfl, h1, h2, h3, h4, h5, h6, h7, h8, h9, h10, rfl⟩
    | outGraphs =>
      simp only [wstep]
      rw [← h11]
      cases namesStep w.head.outputs tk with
      | none => exact Or.inl ⟨rfl, rfl⟩
      | some l => exact Or.inr ⟨_, _, rfl, rfl, h1, h2, h3, h4, h5, h6, h7, h8, h9, h10, rfl⟩
    | cSubj =>
      simp only [wstep]
      rw [← h10]
      cases w.wcc with
      | none => exact Or.inl ⟨rfl, rfl⟩
      | some c =>
        simp only [Option.bind_some]
        cases cSubjStep c tk with
        | none => exact Or.inl ⟨rfl, rfl⟩
        | some c' => exact Or.inr ⟨_, _, rfl, rfl, h1, h2, h3, h4, h5, h6, h7, h8, h9, rfl, h11⟩
    | cPred =>
      simp only [wstep]
      rw [← h10]
      cases w.wcc with
      | none => exact Or.inl ⟨rfl, rfl⟩
      | some c =>
        simp only [Option.bind_some]
        cases c.wpair with
        | none => exact Or.inl ⟨rfl, rfl⟩
        | some p =>
          simp only [Option.bind_some]
          cases cPredStep p tk with
          | none => exact Or.inl ⟨rfl, rfl⟩
          | some p' => exact Or.inr ⟨_, _, rfl, rfl, h1, h2, h3, h4, h5, h6, h7, h8, h9, rfl, h11⟩
    | cObj =>
      simp only [wstep]
      rw [← h10]
      cases w.wcc with
      | none => exact Or.inl ⟨rfl, rfl⟩
      | some c =>
        simp only [Option.bind_some]
        cases c.wpair with
        | none => exact Or.inl ⟨rfl, rfl⟩
        | some p =>
          simp only [Option.bind_some]
          cases cObjStep p tk with
          | none => exact Or.inl ⟨rfl, rfl⟩
          | some p' => exact Or.inr ⟨_, _, rfl, rfl, h1, h2, h3, h4, h5, h6, h7, h8, h9, rfl, h11⟩
    | vars =>
      simp only [wstep]
      have e1 : w.hv.enter w.stmt = w'.hv.enter w'.stmt := by rw [← h1]; exact h7
      rw [← h11, ← e1]
      cases hstep : varStep w.head (w.hv.enter w.stmt).last tk with
      | none => exact Or.inl ⟨rfl, rfl⟩
      | some r =>
        refine Or.inr ⟨_, _, rfl, rfl, h1, h2, h3, h4, h5, h6, ?_, h8, h9, h10, rfl⟩
        show _ = _
        rw [← h1]
    | bounds =>
      simp only [wstep]
      have e1 : w.hb.enter w.stmt = w'.hb.enter w'.stmt := by rw [← h1]; exact h8
      rw [← h11, ← e1]
      cases hstep : boundsStep w.head (w.hb.enter w.stmt) tk with
      | none => exact Or.inl ⟨rfl, rfl⟩
      | some r =>
        refine Or.inr ⟨_, _, rfl, rfl, h1, h2, h3, h4, h5, h6, h7, ?_, h9, h10, rfl⟩
        show _ = _
        rw [← h1]
    | data =>
      simp only [wstep]
      have e1 : w.da.enter w.stmt = w'.da.enter w'.stmt := by rw [← h1]; exact h9
      rw [← h11, ← e1]
      cases hstep : dataStep w.head.data (w.da.enter w.stmt) tk with
      | none => exact Or.inl ⟨rfl, rfl⟩
      | some r =>
        refine Or.inr ⟨_, _, rfl, rfl, h1, h2, h3, h4, h5, h6, h7, h8, ?_, h10, rfl⟩
        show _ = _
        rw [← h1]
    | subj =>
      simp only [wstep]
      have e1 : w.hs.enter w.stmt = w'.hs.enter w'.stmt := by rw [← h1]; exact h4
      rw [← h2, ← e1]
      cases hstep : subjStep w.working (w.hs.enter w.stmt).last tk with
      | none => exact Or.inl ⟨rfl, rfl⟩
      | some r =>
        refine Or.inr ⟨_, _, rfl, rfl, h1, rfl, h3, ?_, h5, h6, h7, h8, h9, h10, h11⟩
        show _ = _
        rw [← h1]
    | pred =>
      simp only [wstep]
      have e1 : w.hp.enter w.stmt = w'.hp.enter w'.stmt := by rw [← h1]; exact h5
      rw [← h2, ← e1]
      cases hstep : predStep w.working (w.hp.enter w.stmt).last tk with
      | none => exact Or.inl ⟨rfl, rfl⟩
      | some r =>
        refine Or.inr ⟨_, _, rfl, rfl, h1, rfl, h3, h4, ?_, h6, h7, h8, h9, h10, h11⟩
        show _ = _
        rw [← h1]
    | obj =>
      simp only [wstep]
      have e1 : w.ho.enter w.stmt = w'.ho.enter w'.stmt := by rw [← h1]; exact h6
      rw [← h2, ← e1]
      cases hstep : objStep w.working (w.ho.enter w.stmt).last tk with
      | none => exact Or.inl ⟨rfl, rfl⟩
      | some r =>
        refine Or.inr ⟨_, _, rfl, rfl, h1, rfl, h3, h4, h5, ?_, h7, h8, h9, h10, h11⟩
        show _ = _
        rw [← h1]

/-- What the hooks have built, as far as it is observed. -/
def WState.built (w : WState) : List Clause × Head := (w.pattern, w.head)

theorem wrun_sim (evs : List HEv) : ∀ {w w' : WState}, Sim w w' →
    (wrun w evs).map WState.built = (wrun w' evs).map WState.built := by
  induction evs with
  | nil => intro w w' h; simp only [wrun, Option.map_some, WState.built]; rw [h.2.2.1, h.2.2.2.2.2.2.2.2.2.2]
  | cons e evs ih =>
    intro w w' h
    simp only [wrun]
    rcases wstep_sim h e with ⟨a, b⟩ | ⟨v, v', a, b, hs⟩
    · rw [a, b]
    · rw [a, b]; exact ih hs

/-- **The hooks keep no state.** Whatever the hook closures (subject, predicate, object, projections, global
    bounds, data accumulator) remember from statements parsed earlier (accepted or rejected, ended in the
    middle of a modifier or of a triple, or not), what they build for a new statement — pattern clauses,
    projections, graphs, GROUP BY, ORDER BY, LIMIT, bounds, statement type, graph names, data triples,
    construct template — is the same. -/
theorem hooks_stateless (stmt : Nat) (hs hp ho hv hs' hp' ho' hv' : HState) (hb hb' : BState) (da da' : DAcc)
    (h1 : hs.cur ≠ stmt) (h2 : hp.cur ≠ stmt) (h3 : ho.cur ≠ stmt) (h4 : hv.cur ≠ stmt) (h5 : hb.cur ≠ stmt) (h6 : da.cur ≠ stmt)
    (h1' : hs'.cur ≠ stmt) (h2' : hp'.cur ≠ stmt) (h3' : ho'.cur ≠ stmt) (h4' : hv'.cur ≠ stmt) (h5' : hb'.cur ≠ stmt) (h6' : da'.cur ≠ stmt)
    (evs : List HEv) :
    (wrun { stmt := stmt, hs := hs, hp := hp, ho := ho, hv := hv, hb := hb, da := da } evs).map WState.built =
    (wrun { stmt := stmt, hs := hs', hp := hp', ho := ho', hv := hv', hb := hb', da := da' } evs).map WState.built := by
  apply wrun_sim
  refine ⟨rfl, rfl, rfl, ?_, ?_, ?_, ?_, ?_, ?_, rfl, rfl⟩ <;> first
    | (unfold SameFor HState.enter; simp [*])
    | (unfold SameForB BState.enter; simp [*])
    | (unfold SameForD DAcc.enter; simp [*])

end BW.Proofs.Hooks

namespace BW.Proofs.Hooks

/-! ### The hooks build the clause the tokens denote (C03) -/

def kwTok (k : HK) : HTk := { k := k }
def bTok (x : Bytes) : HTk := { k := .binding, text := x }

/-- The tokens of a list of modifiers: `AS ?x`, `TYPE ?x`, `ID ?x`, `AT ?x`. -/
def modToks (mods : List (HK × Bytes)) : List HTk := mods.flatMap fun m => [kwTok m.1, bTok m.2]

def runPart (step : Clause → Option HK → HTk → Option (Clause × Option HK)) :
    Clause → Option HK → List HTk → Option (Clause × Option HK)
  | c, l, [] => some (c, l)
  | c, l, tk :: tks => match step c l tk with
    | none => none
    | some (c', l') => runPart step c' l' tks

/-- A hook handles modifiers when: a modifier keyword is remembered; the binding after it lands in the
    field of that keyword, provided the field is still empty; and no other field is touched. -/
structure Handles (step : Clause → Option HK → HTk → Option (Clause × Option HK)) (allowed : List HK)
    (set : HK → Bytes → Clause → Clause) (field : HK → Clause → Bytes) : Prop where
  kw : ∀ c, ∀ k ∈ allowed, step c none (kwTok k) = some (c, some k)
  bind : ∀ c x, ∀ k ∈ allowed, field k c = [] → step c (some k) (bTok x) = some (set k x c, none)
  frame : ∀ c x, ∀ k ∈ allowed, ∀ k' ∈ allowed, k ≠ k' → field k' (set k x c) = field k' c

theorem mods_denote {step allowed set field} (H : Handles step allowed set field) :
    ∀ (mods : List (HK × Bytes)) (c : Clause), (mods.map (·.1)).Nodup → (∀ m ∈ mods, m.1 ∈ allowed) →
      (∀ m ∈ mods, field m.1 c = []) →
      runPart step c none (modToks mods) = some (mods.foldl (fun c m => set m.1 m.2 c) c, none) := by
  intro mods
  induction mods with
  | nil => intro c _ _ _; rfl
  | cons m mods ih =>
    intro c hn ha hf
    simp only [List.map_cons, List.nodup_cons] at hn
    have hm := ha m List.mem_cons_self
    simp only [modToks, List.flatMap_cons, List.cons_append, List.nil_append, runPart,
      H.kw c m.1 hm, H.bind c m.2 m.1 hm (hf m List.mem_cons_self), List.foldl_cons]
    apply ih (set m.1 m.2 c) hn.2 (fun m' hm' => ha m' (List.mem_cons_of_mem _ hm'))
    intro m' hm'
    have hne : m.1 ≠ m'.1 := fun e => hn.1 (e ▸ List.mem_map.mpr ⟨m', hm', rfl⟩)
    rw [H.frame c m.2 m.1 hm m'.1 (ha m' (List.mem_cons_of_mem _ hm')) hne]
    exact hf m' (List.mem_cons_of_mem _ hm')

def setS : HK → Bytes → Clause → Clause
  | .as_, x, c => { c with sAlias := x }
  | .type_, x, c => { c with sTypeAlias := x }
  | .id_, x, c => { c with sIDAlias := x }
  | _, _, c => c
def fieldS : HK → Clause → Bytes
  | .as_, c => c.sAlias | .type_, c => c.sTypeAlias | .id_, c => c.sIDAlias | _, _ => []

def setP : HK → Bytes → Clause → Clause
  | .as_, x, c => { c with pAlias := x }
  | .id_, x, c => { c with pIDAlias := x }
  | .at_, x, c => { c with pAnchorAlias := x }
  | _, _, c => c
def fieldP : HK → Clause → Bytes
  | .as_, c => c.pAlias | .id_, c => c.pIDAlias | .at_, c => c.pAnchorAlias | _, _ => []

def setO : HK → Bytes → Clause → Clause
  | .as_, x, c => { c with oAlias := x }
  | .type_, x, c => { c with oTypeAlias := x }
  | .id_, x, c => { c with oIDAlias := x }
  | .at_, x, c => { c with oAnchorAlias := x }
  | _, _, c => c
def fieldO : HK → Clause → Bytes
  | .as_, c => c.oAlias | .type_, c => c.oTypeAlias | .id_, c => c.oIDAlias | .at_, c => c.oAnchorAlias | _, _ => []

theorem subj_handles : Handles subjStep [.as_, .type_, .id_] setS fieldS := by
  refine ⟨?_, ?_, ?_⟩
  · intro c k hk
    simp only [List.mem_cons, List.mem_nil_iff, or_false] at hk
    rcases hk with e | e | e <;> subst e <;> rfl
  · intro c x k hk hf
    simp only [List.mem_cons, List.mem_nil_iff, or_false] at hk
    rcases hk with e | e | e <;> subst e <;> simp only [fieldS] at hf <;> simp [subjStep, bTok, setS, hf]
  · intro c x k hk k' hk' hne
    simp only [List.mem_cons, List.mem_nil_iff, or_false] at hk hk'
    rcases hk with e | e | e <;> rcases hk' with e' | e' | e' <;> subst e <;> subst e' <;>
      first | exact absurd rfl hne | rfl

theorem pred_handles : Handles predStep [.as_, .id_, .at_] setP fieldP := by
  refine ⟨?_, ?_, ?_⟩
  · intro c k hk
    simp only [List.mem_cons, List.mem_nil_iff, or_false] at hk
    rcases hk with e | e | e <;> subst e <;> rfl
  · intro c x k hk hf
    simp only [List.mem_cons, List.mem_nil_iff, or_false] at hk
    rcases hk with e | e | e <;> subst e <;> simp only [fieldP] at hf <;> simp [predStep, bTok, setP, hf]
  · intro c x k hk k' hk' hne
    simp only [List.mem_cons, List.mem_nil_iff, or_false] at hk hk'
    rcases hk with e | e | e <;> rcases hk' with e' | e' | e' <;> subst e <;> subst e' <;>
      first | exact absurd rfl hne | rfl

theorem obj_handles : Handles objStep [.as_, .type_, .id_, .at_] setO fieldO := by
  refine ⟨?_, ?_, ?_⟩
  · intro c k hk
    simp only [List.mem_cons, List.mem_nil_iff, or_false] at hk
    rcases hk with e | e | e | e <;> subst e <;> rfl
  · intro c x k hk hf
    simp only [List.mem_cons, List.mem_nil_iff, or_false] at hk
    rcases hk with e | e | e | e <;> subst e <;> simp only [fieldO] at hf <;> simp [objStep, bTok, setO, hf]
  · intro c x k hk k' hk' hne
    simp only [List.mem_cons, List.mem_nil_iff, or_false] at hk hk'
    rcases hk with e | e | e | e <;> rcases hk' with e' | e' | e' | e' <;> subst e <;> subst e' <;>
      first | exact absurd rfl hne | rfl

end BW.Proofs.Hooks

namespace BW.Proofs.Hooks

/-! ### A whole clause -/

inductive SBase | node (n : Node) | binding (b : Bytes)
inductive PBase | full (p : Pred) | part (id ta : Bytes) | bound (b : BoundP) | binding (b : Bytes)
inductive OBase | value (o : Obj) (isNode : Bool) | full (p : Pred) | part (id ta : Bytes) | bound (b : BoundP) | binding (b : Bytes)

def sTok : SBase → HTk
  | .node n => { k := .node, node := some n, obj := some (.node n) }
  | .binding b => bTok b
def pTok : PBase → HTk
  | .full p => { k := .predicate, pred := some p }
  | .part id ta => { k := .predicate, part := some (id, ta) }
  | .bound b => { k := .predicateBound, bound := some b }
  | .binding b => bTok b
def oTok : OBase → HTk
  | .value o isNode => { k := if isNode then .node else .literal, obj := some o }
  | .full p => { k := .predicate, pred := some p }
  | .part id ta => { k := .predicate, part := some (id, ta) }
  | .bound b => { k := .predicateBound, bound := some b }
  | .binding b => bTok b

def denoteS (c : Clause) : SBase → Clause
  | .node n => { c with s := some n }
  | .binding b => { c with sBinding := b }
def denoteP (c : Clause) : PBase → Clause
  | .full p => { c with p := some p, pID := [], pAnchorBinding := [], pTemporal := isTemporal p }
  | .part id ta => { c with p := none, pID := id, pAnchorBinding := ta, pTemporal := ta ≠ [] }
  | .bound b => { c with pID := b.id, pLowerAlias := b.loAlias, pUpperAlias := b.hiAlias, pLower := b.lo, pUpper := b.hi, pTemporal := true }
  | .binding b => { c with pBinding := b }
def denoteO (c : Clause) : OBase → Clause
  | .value o _ => { c with o := some o }
  | .full p => { c with o := some (.pred p), oID := [], oAnchorBinding := [], oTemporal := isTemporal p }
  | .part id ta => { c with o := none, oID := id, oAnchorBinding := ta, oTemporal := ta ≠ [] }
  | .bound b => { c with oID := b.id, oLowerAlias := b.loAlias, oUpperAlias := b.hiAlias, oLower := b.lo, oUpper := b.hi, oTemporal := true }
  | .binding b => { c with oBinding := b }

structure ClauseAST where
  optional : Bool := false
  sb : SBase
  smods : List (HK × Bytes) := []
  pb : PBase
  pmods : List (HK × Bytes) := []
  ob : OBase
  omods : List (HK × Bytes) := []

def ValidMods (allowed : List HK) (mods : List (HK × Bytes)) : Prop :=
  (mods.map (·.1)).Nodup ∧ ∀ m ∈ mods, m.1 ∈ allowed

structure ClauseAST.Valid (a : ClauseAST) : Prop where
  s : ValidMods [.as_, .type_, .id_] a.smods
  p : ValidMods [.as_, .id_, .at_] a.pmods
  o : ValidMods [.as_, .type_, .id_, .at_] a.omods

/-- What the clause means. -/
def denote (a : ClauseAST) : Clause :=
  let c0 : Clause := { optional := a.optional }
  let c1 := a.smods.foldl (fun c m => setS m.1 m.2 c) (denoteS c0 a.sb)
  let c2 := a.pmods.foldl (fun c m => setP m.1 m.2 c) (denoteP c1 a.pb)
  a.omods.foldl (fun c m => setO m.1 m.2 c) (denoteO c2 a.ob)

theorem foldl_setS_frame (mods : List (HK × Bytes)) (c : Clause) :
    let c' := mods.foldl (fun c m => setS m.1 m.2 c) c
    c'.p = c.p ∧ c'.pBinding = c.pBinding ∧ c'.pAlias = c.pAlias ∧ c'.pIDAlias = c.pIDAlias ∧ c'.pAnchorAlias = c.pAnchorAlias ∧
    c'.pLower = c.pLower ∧ c'.pUpper = c.pUpper ∧ c'.pLowerAlias = c.pLowerAlias ∧ c'.pUpperAlias = c.pUpperAlias ∧
    c'.o = c.o ∧ c'.oBinding = c.oBinding ∧ c'.oAlias = c.oAlias ∧ c'.oTypeAlias = c.oTypeAlias ∧ c'.oIDAlias = c.oIDAlias ∧
    c'.oAnchorAlias = c.oAnchorAlias ∧ c'.oLower = c.oLower ∧ c'.oUpper = c.oUpper ∧ c'.oLowerAlias = c.oLowerAlias ∧
    c'.oUpperAlias = c.oUpperAlias := by
  induction mods generalizing c with
  | nil => simp
  | cons m mods ih =>
    simp only [List.foldl_cons]
    have := ih (setS m.1 m.2 c)
    simp only at this
    obtain ⟨k, x⟩ := m
    cases k <;> simp [setS] at this ⊢ <;> exact this

theorem foldl_setP_frame (mods : List (HK × Bytes)) (c : Clause) :
    let c' := mods.foldl (fun c m => setP m.1 m.2 c) c
    c'.o = c.o ∧ c'.oBinding = c.oBinding ∧ c'.oAlias = c.oAlias ∧ c'.oTypeAlias = c.oTypeAlias ∧ c'.oIDAlias = c.oIDAlias ∧
    c'.oAnchorAlias = c.oAnchorAlias ∧ c'.oLower = c.oLower ∧ c'.oUpper = c.oUpper ∧ c'.oLowerAlias = c.oLowerAlias ∧
    c'.oUpperAlias = c.oUpperAlias := by
  induction mods generalizing c with
  | nil => simp
  | cons m mods ih =>
    simp only [List.foldl_cons]
    have := ih (setP m.1 m.2 c)
    simp only at this
    obtain ⟨k, x⟩ := m
    cases k <;> simp [setP] at this ⊢ <;> exact this

end BW.Proofs.Hooks

namespace BW.Proofs.Hooks

theorem runPart_cons (step) (c : Clause) (l : Option HK) (tk : HTk) (tks : List HTk) (c' : Clause) (l' : Option HK)
    (h : step c l tk = some (c', l')) : runPart step c l (tk :: tks) = runPart step c' l' tks := by
  simp only [runPart, h]

def optToks (a : ClauseAST) : List HTk := if a.optional then [kwTok .optional, kwTok .lbracket] else []

/-- **A clause means what its tokens say.** The subject hook over the subject's tokens (after `OPTIONAL {`
    when the clause is optional), then the predicate hook over the predicate's, then the object hook over the
    object's — each starting with nothing remembered — build exactly `denote`: every constant, binding, bound,
    anchor binding and alias in the field of its position. For every clause of the grammar's shape (a base
    element and modifiers with distinct keywords, in any order). -/
theorem clause_denote (a : ClauseAST) (hv : a.Valid) :
    (match runPart subjStep {} none (optToks a ++ sTok a.sb :: modToks a.smods) with
     | none => none
     | some (c1, _) =>
       match runPart predStep c1 none (pTok a.pb :: modToks a.pmods) with
       | none => none
       | some (c2, _) => (runPart objStep c2 none (oTok a.ob :: modToks a.omods)).map (·.1)) = some (denote a) := by
  -- subject
  have hopt : runPart subjStep {} none (optToks a ++ sTok a.sb :: modToks a.smods) =
      runPart subjStep { optional := a.optional } none (sTok a.sb :: modToks a.smods) := by
    unfold optToks
    cases a.optional with
    | false => rfl
    | true => rfl
  have hs0 : subjStep { optional := a.optional } none (sTok a.sb) = some (denoteS { optional := a.optional } a.sb, none) := by
    cases a.sb <;> rfl
  have hs : runPart subjStep { optional := a.optional } none (sTok a.sb :: modToks a.smods) =
      some (a.smods.foldl (fun c m => setS m.1 m.2 c) (denoteS { optional := a.optional } a.sb), none) := by
    rw [runPart_cons _ _ _ _ _ _ _ hs0]
    apply mods_denote subj_handles a.smods _ hv.s.1 hv.s.2
    intro m hm
    have := hv.s.2 m hm
    simp only [List.mem_cons, List.mem_nil_iff, or_false] at this
    cases a.sb <;> rcases this with e | e | e <;> rw [e] <;> rfl
  rw [hopt, hs]
  simp only
  -- predicate
  generalize hc1 : a.smods.foldl (fun c m => setS m.1 m.2 c) (denoteS { optional := a.optional } a.sb) = c1
  have f1 := foldl_setS_frame a.smods (denoteS { optional := a.optional } a.sb)
  simp only [hc1] at f1
  have hbase1 : c1.p = none ∧ c1.pBinding = [] ∧ c1.pAlias = [] ∧ c1.pIDAlias = [] ∧ c1.pAnchorAlias = [] ∧
      c1.pLower = none ∧ c1.pUpper = none ∧ c1.pLowerAlias = [] ∧ c1.pUpperAlias = [] ∧
      c1.o = none ∧ c1.oBinding = [] ∧ c1.oAlias = [] ∧ c1.oTypeAlias = [] ∧ c1.oIDAlias = [] ∧ c1.oAnchorAlias = [] ∧
      c1.oLower = none ∧ c1.oUpper = none ∧ c1.oLowerAlias = [] ∧ c1.oUpperAlias = [] := by
    obtain ⟨e1, e2, e3, e4, e5, e6, e7, e8, e9, e10, e11, e12, e13, e14, e15, e16, e17, e18, e19⟩ := f1
    rw [e1, e2, e3, e4, e5, e6, e7, e8, e9, e10, e11, e12, e13, e14, e15, e16, e17, e18, e19]
    cases a.sb <;> simp [denoteS]
  obtain ⟨b1, b2, b3, b4, b5, b6, b7, b8, b9, b10, b11, b12, b13, b14, b15, b16, b17, b18, b19⟩ := hbase1
  have hp0 : predStep c1 none (pTok a.pb) = some (denoteP c1 a.pb, none) := by
    cases a.pb <;> simp [predStep, pTok, bTok, denoteP, processPredicate, b1, b2, b6, b7, b8, b9]
  have hp : runPart predStep c1 none (pTok a.pb :: modToks a.pmods) =
      some (a.pmods.foldl (fun c m => setP m.1 m.2 c) (denoteP c1 a.pb), none) := by
    rw [runPart_cons _ _ _ _ _ _ _ hp0]
    apply mods_denote pred_handles a.pmods _ hv.p.1 hv.p.2
    intro m hm
    have := hv.p.2 m hm
    simp only [List.mem_cons, List.mem_nil_iff, or_false] at this
    cases a.pb <;> rcases this with e | e | e <;> rw [e] <;> simp [fieldP, denoteP, b3, b4, b5]
  rw [hp]
  simp only
  -- object
  generalize hc2 : a.pmods.foldl (fun c m => setP m.1 m.2 c) (denoteP c1 a.pb) = c2
  have f2 := foldl_setP_frame a.pmods (denoteP c1 a.pb)
  simp only [hc2] at f2
  have hbase2 : c2.o = none ∧ c2.oBinding = [] ∧ c2.oAlias = [] ∧ c2.oTypeAlias = [] ∧ c2.oIDAlias = [] ∧ c2.oAnchorAlias = [] ∧
      c2.oLower = none ∧ c2.oUpper = none ∧ c2.oLowerAlias = [] ∧ c2.oUpperAlias = [] := by
    obtain ⟨e1, e2, e3, e4, e5, e6, e7, e8, e9, e10⟩ := f2
    rw [e1, e2, e3, e4, e5, e6, e7, e8, e9, e10]
    cases a.pb <;> simp [denoteP, b10, b11, b12, b13, b14, b15, b16, b17, b18, b19]
  obtain ⟨d1, d2, d3, d4, d5, d6, d7, d8, d9, d10⟩ := hbase2
  have ho0 : objStep c2 none (oTok a.ob) = some (denoteO c2 a.ob, none) := by
    cases a.ob with
    | value o isNode => cases isNode <;> simp [objStep, oTok, denoteO, d1]
    | full p => simp [objStep, oTok, denoteO, processPredicate, d1]
    | part id ta => simp [objStep, oTok, denoteO, processPredicate, d1]
    | bound b => simp [objStep, oTok, denoteO, d7, d8, d9, d10]
    | binding b => simp [objStep, oTok, bTok, denoteO, d2]
  have ho : runPart objStep c2 none (oTok a.ob :: modToks a.omods) =
      some (a.omods.foldl (fun c m => setO m.1 m.2 c) (denoteO c2 a.ob), none) := by
    rw [runPart_cons _ _ _ _ _ _ _ ho0]
    apply mods_denote obj_handles a.omods _ hv.o.1 hv.o.2
    intro m hm
    have := hv.o.2 m hm
    simp only [List.mem_cons, List.mem_nil_iff, or_false] at this
    cases a.ob <;> rcases this with e | e | e | e <;> rw [e] <;> simp [fieldO, denoteO, d3, d4, d5, d6]
  rw [ho]
  simp only [Option.map_some]
  unfold denote
  simp only [hc1, hc2]

end BW.Proofs.Hooks
