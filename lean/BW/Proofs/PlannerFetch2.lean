/-
The planner's fetch (`simpleFetch`) against the reference, one graph at a time (towards C03).

`simpleFetch_partial`: for a clause with at least one open position the fetch is the concatenation, over
the listed graphs, of `graphRows` — the look-up the model selects, evaluated through `lookup_eq_scan`
(C02) as a filter over the stored views.  `graphRows_spec`: on a graph whose views are the views of its
triples (`Faithful`) and whose values are told apart by their UUID pre-images (`Apart` hypotheses),
those rows are, as a set and up to anchor representation, the reference's matches of the clause on a
scan of the graph.
-/
import BW.Proofs.PlannerFetch
import BW.Proofs.Lookup
open BW.Model BW.Spec BW.Proofs.ClauseOrder BW.Proofs.Store BW.Proofs.Lookup

namespace BW.Proofs.Planner

/-! ### Sets of rows up to the representation of anchors -/

def SetEq (l l' : List Row) : Prop := (∀ r ∈ l, ∃ r' ∈ l', RowEq r r') ∧ (∀ r' ∈ l', ∃ r ∈ l, RowEq r r')

theorem SetEq.refl (l : List Row) : SetEq l l := ⟨fun r h => ⟨r, h, RowEq.refl r⟩, fun r h => ⟨r, h, RowEq.refl r⟩⟩
theorem SetEq.symm {l l' : List Row} (h : SetEq l l') : SetEq l' l :=
  ⟨fun r hr => let ⟨r', h1, h2⟩ := h.2 r hr; ⟨r', h1, h2.symm⟩, fun r hr => let ⟨r', h1, h2⟩ := h.1 r hr; ⟨r', h1, h2.symm⟩⟩
theorem SetEq.trans {a b c : List Row} (h1 : SetEq a b) (h2 : SetEq b c) : SetEq a c := by
  constructor
  · intro r hr
    obtain ⟨r', hr', e1⟩ := h1.1 r hr
    obtain ⟨r'', hr'', e2⟩ := h2.1 r' hr'
    exact ⟨r'', hr'', e1.trans e2⟩
  · intro r hr
    obtain ⟨r', hr', e1⟩ := h2.2 r hr
    obtain ⟨r'', hr'', e2⟩ := h1.2 r' hr'
    exact ⟨r'', hr'', e2.trans e1⟩

theorem SetEq.append {a b c d : List Row} (h1 : SetEq a b) (h2 : SetEq c d) : SetEq (a ++ c) (b ++ d) := by
  constructor
  · intro r hr
    rcases List.mem_append.mp hr with h | h
    · obtain ⟨r', hr', e⟩ := h1.1 r h; exact ⟨r', List.mem_append_left _ hr', e⟩
    · obtain ⟨r', hr', e⟩ := h2.1 r h; exact ⟨r', List.mem_append_right _ hr', e⟩
  · intro r hr
    rcases List.mem_append.mp hr with h | h
    · obtain ⟨r', hr', e⟩ := h1.2 r h; exact ⟨r', List.mem_append_left _ hr', e⟩
    · obtain ⟨r', hr', e⟩ := h2.2 r h; exact ⟨r', List.mem_append_right _ hr', e⟩

theorem SetEq.flatMap {α : Type} (l : List α) (f g : α → List Row) (h : ∀ a ∈ l, SetEq (f a) (g a)) :
    SetEq (l.flatMap f) (l.flatMap g) := by
  constructor
  · intro r hr
    obtain ⟨a, ha, hra⟩ := List.mem_flatMap.mp hr
    obtain ⟨r', hr', e⟩ := (h a ha).1 r hra
    exact ⟨r', List.mem_flatMap.mpr ⟨a, ha, hr'⟩, e⟩
  · intro r hr
    obtain ⟨a, ha, hra⟩ := List.mem_flatMap.mp hr
    obtain ⟨r', hr', e⟩ := (h a ha).2 r hra
    exact ⟨r', List.mem_flatMap.mpr ⟨a, ha, hr'⟩, e⟩

theorem SetEq.of_perm {l l' : List Row} (h : l.Perm l') : SetEq l l' :=
  ⟨fun r hr => ⟨r, h.mem_iff.mp hr, RowEq.refl r⟩, fun r hr => ⟨r, h.mem_iff.mpr hr, RowEq.refl r⟩⟩

/-! ### Stored triples and what the store sees of them -/

def scanOf (q : QGraph) : List Triple := q.triples q.g.master

/-- Every stored view is the view of the structured triple registered under its id. -/
def Faithful (q : QGraph) : Prop :=
  ∀ v ∈ q.g.master, ∃ t, q.uni v.id = some t ∧ v.ks = preNode t.s ∧ v.pid = t.p.id ∧
    v.pnano = t.p.anchor.map (·.nanos) ∧ preObj false t.o = some v.ko

/-- The clause's constants are told apart from the stored values by their UUID pre-images (known
    finding D02: `/a<bc>` and `/ab<c>` are not). -/
def Apart (gs : List QGraph) (c : Clause) : Prop :=
  (∀ s, c.s = some s → ∀ q ∈ gs, ∀ t ∈ scanOf q, preNode s = preNode t.s → s = t.s) ∧
  (∀ o, c.o = some o → ∀ q ∈ gs, ∀ t ∈ scanOf q, preObj false o = preObj false t.o → objSame o t.o = true)

theorem preObj_false_some (o : Obj) : ∃ b, preObj false o = some b := by
  cases o with
  | node n => exact ⟨_, rfl⟩
  | pred p => exact ⟨_, rfl⟩
  | lit l => cases l with
    | bool b => cases b <;> exact ⟨_, rfl⟩
    | int i => exact ⟨padTo 8 (varint i), by simp [preObj, preLit]⟩
    | float b => exact ⟨_, rfl⟩
    | text s => exact ⟨_, rfl⟩
    | blob b => exact ⟨_, rfl⟩

theorem objSame_preObj {o o' : Obj} (h : objSame o o' = true) : preObj false o = preObj false o' := by
  cases o <;> cases o' <;> simp [objSame] at h
  · rw [h]
  · rename_i p p'
    have ⟨h1, h2⟩ := predSame_parts h
    cases p <;> cases p' <;> simp [Pred.id, Pred.anchor] at h1 h2 <;> simp [preObj, prePred, h1, h2]
  · rw [h]

theorem look_spec {F : Facts} (hF : Facts.WF F = true) (g : Graph) (hinv : Inv F g) (m : Method) (a : LArgs)
    (haok : argsOK m a = true) (lo : QOpts) (hfil : lo.filter = none) :
    g.lookup F m a (toLookupOpts lo 0) =
      .ok (sortByStr ((g.master.filter (matchesArgs m a)).filter (inWindow (toLookupOpts lo 0)))) := by
  rw [lookup_eq_scan hF hinv m a _ haok (Or.inr (by simp [toLookupOpts]))]
  simp [scanLookup, toLookupOpts, hfil, page]

/-- The fixed components of a fetch, as one predicate on views. -/
def fixedMatch (s? : Option Node) (p? : Option Pred) (ko? : Option Bytes) (v : TView) : Bool :=
  (match s? with | some s => v.ks == preNode s | none => true) &&
  (match p? with | some p => predMatches (predPQ p) v | none => true) &&
  (match ko? with | some ko => v.ko == ko | none => true)

def fetchWindow (lo : QOpts) (c : Clause) : Window :=
  clauseWindow (lo.lower.map (·.nanos)) (lo.upper.map (·.nanos)) c []

theorem fetchWindow_bounds (lo : QOpts) (c : Clause) :
    (fetchWindow lo c).lower = (updateTimeBounds lo c).lower.map (·.nanos) ∧
    (fetchWindow lo c).upper = (updateTimeBounds lo c).upper.map (·.nanos) := by
  unfold fetchWindow clauseWindow updateTimeBounds
  have hr : ∀ k, rowTime [] k = none := fun k => rfl
  cases h1 : c.pLower <;> cases h2 : c.pUpper <;> cases h3 : lo.lower <;> cases h4 : lo.upper <;>
    simp [Window.tightenLower, Window.tightenUpper, hr, timeAfter, timeBefore] <;>
    (try split) <;> (try split) <;> simp_all <;> omega

theorem tightenLower_lower (w : Window) (l : Option Int) (x : Int) (h : ∃ wl, w.lower = some wl ∧ x ≤ wl) :
    ∃ wl, (w.tightenLower l).lower = some wl ∧ x ≤ wl := by
  obtain ⟨wl, h1, h2⟩ := h
  cases l with
  | none => exact ⟨wl, by simp [Window.tightenLower, h1], h2⟩
  | some l => exact ⟨max l wl, by simp [Window.tightenLower, h1], by omega⟩

theorem tightenUpper_lower (w : Window) (u : Option Int) : (w.tightenUpper u).lower = w.lower := by
  cases u <;> cases h : w.upper <;> simp [Window.tightenUpper, h]

theorem tightenLower_upper (w : Window) (l : Option Int) : (w.tightenLower l).upper = w.upper := by
  cases l <;> cases h : w.lower <;> simp [Window.tightenLower, h]

theorem tightenUpper_upper (w : Window) (u : Option Int) (x : Int) (h : ∃ wu, w.upper = some wu ∧ wu ≤ x) :
    ∃ wu, (w.tightenUpper u).upper = some wu ∧ wu ≤ x := by
  obtain ⟨wu, h1, h2⟩ := h
  cases u with
  | none => exact ⟨wu, by simp [Window.tightenUpper, h1], h2⟩
  | some u => exact ⟨min u wu, by simp [Window.tightenUpper, h1], by omega⟩

theorem tight_clauseWindow (glo ghi : Option Int) (c : Clause) (r : Row) : Tight c (clauseWindow glo ghi c r) := by
  unfold clauseWindow
  constructor
  · intro l hl
    have h0 : ∃ wl, ((({ lower := glo, upper := ghi } : Window).tightenLower (c.pLower.map (·.nanos))).tightenUpper
        (c.pUpper.map (·.nanos))).lower = some wl ∧ l.nanos ≤ wl := by
      rw [tightenUpper_lower, hl]
      cases glo with
      | none => exact ⟨l.nanos, by simp [Window.tightenLower], by omega⟩
      | some g => exact ⟨max l.nanos g, by simp [Window.tightenLower], by omega⟩
    simp only
    by_cases hU : c.pUpperAlias ≠ [] <;> by_cases hL : c.pLowerAlias ≠ []
    · rw [if_pos hU, if_pos hL, tightenUpper_lower]; exact tightenLower_lower _ _ _ h0
    · rw [if_pos hU, if_neg hL, tightenUpper_lower]; exact h0
    · rw [if_neg hU, if_pos hL]; exact tightenLower_lower _ _ _ h0
    · rw [if_neg hU, if_neg hL]; exact h0
  · intro u hu
    have h0 : ∃ wu, ((({ lower := glo, upper := ghi } : Window).tightenLower (c.pLower.map (·.nanos))).tightenUpper
        (c.pUpper.map (·.nanos))).upper = some wu ∧ wu ≤ u.nanos := by
      rw [hu]
      cases hg : (({ lower := glo, upper := ghi } : Window).tightenLower (c.pLower.map (·.nanos))).upper with
      | none => exact ⟨u.nanos, by simp [Window.tightenUpper, hg], by omega⟩
      | some g => exact ⟨min u.nanos g, by simp [Window.tightenUpper, hg], by omega⟩
    simp only
    by_cases hU : c.pUpperAlias ≠ [] <;> by_cases hL : c.pLowerAlias ≠ []
    · rw [if_pos hU, if_pos hL]; exact tightenUpper_upper _ _ _ (by rw [tightenLower_upper]; exact h0)
    · rw [if_pos hU, if_neg hL]; exact tightenUpper_upper _ _ _ h0
    · rw [if_neg hU, if_pos hL, tightenLower_upper]; exact h0
    · rw [if_neg hU, if_neg hL]; exact h0

theorem foldlM_flatMap {α β ε : Type} (f : List β → α → Except ε (List β)) (g : α → List β) (l : List α)
    (h : ∀ acc, ∀ a ∈ l, f acc a = .ok (acc ++ g a)) (acc : List β) :
    l.foldlM f acc = .ok (acc ++ l.flatMap g) := by
  induction l generalizing acc with
  | nil => simp [pure, Except.pure]
  | cons a l ih =>
    simp only [List.foldlM_cons, h acc a (List.mem_cons_self), bind, Except.bind, List.flatMap_cons]
    rw [ih (fun acc b hb => h acc b (List.mem_cons_of_mem _ hb))]
    simp

/-- What one graph contributes to a fetch with method `m`: the stored views that match the fixed
    components and the window, as triples (rebuilt from the clause's constants where the look-up
    delivers single components), each turned into a row. -/
def graphRows (c : Clause) (lo : QOpts) (m : Method) (a : LArgs) (rebuild : Triple → Triple) (q : QGraph) : List Row :=
  ((q.triples (sortByStr ((q.g.master.filter (matchesArgs m a)).filter
      (inWindow (toLookupOpts (updateTimeBounds lo c) 0))))).map rebuild).filterMap (fetchRow c)

theorem simpleFetch_partial {F : Facts} (hF : Facts.WF F = true) (gs : List QGraph) (hinv : ∀ q ∈ gs, Inv F q.g)
    (c : Clause) (hid : IdAliasPlain c) (lo : QOpts) (hfil : lo.filter = none)
    (s? : Option Node) (p? : Option Pred) (o? : Option Obj) (hs : c.s = s?) (hp : c.p = p?) (ho : c.o = o?)
    (hpart : ¬ (s?.isSome ∧ p?.isSome ∧ o?.isSome)) :
    ∃ m a rb, argsOK m a = true ∧
      (∀ v, matchesArgs m a v = fixedMatch s? p? (o?.bind (preObj false)) v) ∧
      (∀ t : Triple, rb t = t ∨ rb t = { s := s?.getD t.s, p := p?.getD t.p, o := o?.getD t.o }) ∧
      simpleFetch F gs c lo 0 = .ok (gs.flatMap (graphRows c lo m a rb)) := by
  have hfil' : (updateTimeBounds lo c).filter = none := by simp [updateTimeBounds, hfil]
  have key : ∀ (m : Method) (a : LArgs) (rb : Triple → Triple) (f : List Row → QGraph → Except QErr (List Row)),
      argsOK m a = true →
      (∀ acc, ∀ q ∈ gs, ∀ vs, q.g.lookup F m a (toLookupOpts (updateTimeBounds lo c) 0) = .ok vs →
        f acc q = (do
          let rows ← addTriples ((q.triples vs).map rb) c
          pure (acc ++ rows))) →
      gs.foldlM f [] = .ok (gs.flatMap (graphRows c lo m a rb)) := by
    intro m a rb f haok hf
    rw [foldlM_flatMap f (graphRows c lo m a rb) gs _ []]
    · simp
    · intro acc q hq
      rw [hf acc q hq _ (look_spec hF q.g (hinv q hq) m a haok _ hfil')]
      simp only [bind, Except.bind, addTriples_eq c hid, pure, Except.pure, graphRows]
  unfold simpleFetch
  rw [hs, hp, ho]
  cases s? with
  | none => cases p? with
    | none => cases o? with
      | none =>
        refine ⟨.triples, {}, id, rfl, ?_, ?_, ?_⟩
        · intro v; simp [matchesArgs, fixedParts, fixedMatch]
        · intro t; first | exact Or.inl rfl | exact Or.inr rfl
        · simp only [Option.map_none, Option.map_some, Option.getD_none, Option.getD_some]
          apply key
          · rfl
          · intro acc q hq vs hvs
            simp [hvs]
            try rfl
      | some o =>
        obtain ⟨b, hb⟩ := preObj_false_some o
        refine ⟨.triplesForO, { o := b }, id, rfl, ?_, ?_, ?_⟩
        · intro v; simp [matchesArgs, fixedParts, fixedMatch, hb]
        · intro t; first | exact Or.inl rfl | exact Or.inr rfl
        · simp only [Option.map_none, Option.map_some, Option.getD_none, Option.getD_some, hb]
          apply key
          · rfl
          · intro acc q hq vs hvs
            simp [hvs]
            try rfl
    | some p => cases o? with
      | none =>
        refine ⟨.triplesForP, { p := some (predPQ p) }, id, rfl, ?_, ?_, ?_⟩
        · intro v; simp [matchesArgs, fixedParts, fixedMatch]
        · intro t; first | exact Or.inl rfl | exact Or.inr rfl
        · simp only [Option.map_none, Option.map_some, Option.getD_none, Option.getD_some]
          apply key
          · rfl
          · intro acc q hq vs hvs
            simp [hvs]
            try rfl
      | some o =>
        obtain ⟨b, hb⟩ := preObj_false_some o
        refine ⟨.subjects, { p := some (predPQ p), o := b }, (fun t => { s := none.getD t.s, p := (some p).getD t.p, o := (some o).getD t.o }), rfl, ?_, ?_, ?_⟩
        · intro v; simp [matchesArgs, fixedParts, fixedMatch, hb]
        · intro t; first | exact Or.inl rfl | exact Or.inr rfl
        · simp only [Option.map_none, Option.map_some, Option.getD_none, Option.getD_some, hb]
          apply key
          · rfl
          · intro acc q hq vs hvs
            simp [hvs]
            try rfl
  | some s => cases p? with
    | none => cases o? with
      | none =>
        refine ⟨.triplesForS, { s := preNode s }, id, rfl, ?_, ?_, ?_⟩
        · intro v; simp [matchesArgs, fixedParts, fixedMatch]
        · intro t; first | exact Or.inl rfl | exact Or.inr rfl
        · simp only [Option.map_none, Option.map_some, Option.getD_none, Option.getD_some]
          apply key
          · rfl
          · intro acc q hq vs hvs
            simp [hvs]
            try rfl
      | some o =>
        obtain ⟨b, hb⟩ := preObj_false_some o
        refine ⟨.predsForSO, { s := preNode s, o := b }, (fun t => { s := (some s).getD t.s, p := none.getD t.p, o := (some o).getD t.o }), rfl, ?_, ?_, ?_⟩
        · intro v; simp [matchesArgs, fixedParts, fixedMatch, hb]
        · intro t; first | exact Or.inl rfl | exact Or.inr rfl
        · simp only [Option.map_none, Option.map_some, Option.getD_none, Option.getD_some, hb]
          apply key
          · rfl
          · intro acc q hq vs hvs
            simp [hvs]
            try rfl
    | some p => cases o? with
      | none =>
        refine ⟨.objects, { s := preNode s, p := some (predPQ p) }, (fun t => { s := (some s).getD t.s, p := (some p).getD t.p, o := none.getD t.o }), rfl, ?_, ?_, ?_⟩
        · intro v; simp [matchesArgs, fixedParts, fixedMatch]
        · intro t; first | exact Or.inl rfl | exact Or.inr rfl
        · simp only [Option.map_none, Option.map_some, Option.getD_none, Option.getD_some]
          apply key
          · rfl
          · intro acc q hq vs hvs
            simp [hvs]
            try rfl
      | some o => exact absurd ⟨rfl, rfl, rfl⟩ hpart

theorem predIgnored_congr (id : Bytes) (tmp : Bool) (ab : Bytes) (lo hi : Option Time) {p p' : Pred}
    (h : predSame p p' = true) : predIgnored id tmp ab lo hi p = predIgnored id tmp ab lo hi p' := by
  have ⟨h1, h2⟩ := predSame_parts h
  unfold predIgnored
  rw [h1]
  cases p <;> cases p' <;> simp [Pred.anchor] at h2 <;> simp [timeAfter, timeBefore, h2]

theorem shouldIgnore_congr (c : Clause) {t t' : Triple} (h : TripleEq t t') : shouldIgnore t c = shouldIgnore t' c := by
  obtain ⟨_, hp, ho⟩ := h
  unfold shouldIgnore
  rw [predIgnored_congr _ _ _ _ _ hp]
  congr 2
  cases hto : t.o <;> cases hto' : t'.o <;> simp [hto, hto', objSame] at ho <;> simp
  exact predIgnored_congr _ _ _ _ _ ho

theorem rowEq_isEmpty {r r' : Row} (h : RowEq r r') : r.isEmpty = r'.isEmpty := by
  cases r with
  | nil => cases r' with
    | nil => rfl
    | cons p r' =>
      have := h p.1
      simp [Row.get, List.find?_cons] at this
  | cons p r => cases r' with
    | nil =>
      have := h p.1
      simp [Row.get, List.find?_cons] at this
    | cons p' r' => rfl

theorem fetchRow_congr (c : Clause) {t t' : Triple} (h : TripleEq t t') :
    ORel (fetchRow c t) (fetchRow c t') := by
  unfold fetchRow
  rw [shouldIgnore_congr c h]
  by_cases hi : shouldIgnore t' c = true
  · simp only [hi, if_true]; exact trivial
  · simp only [hi, Bool.false_eq_true, if_false]
    have := specBind_congr c t t' h
    cases h1 : specBind c t with
    | none =>
      cases h2 : specBind c t' with
      | none => exact trivial
      | some r' => rw [h1, h2] at this; exact this.elim
    | some r =>
      cases h2 : specBind c t' with
      | none => rw [h1, h2] at this; exact this.elim
      | some r' =>
        rw [h1, h2] at this
        simp only
        rw [rowEq_isEmpty this.1]
        by_cases he : r'.isEmpty = true
        · simp only [he, if_true]; exact trivial
        · simp only [he, Bool.false_eq_true, if_false]; exact this

theorem TripleEq.refl (t : Triple) : TripleEq t t := by
  refine ⟨rfl, by simp [predSame], ?_⟩
  cases t.o <;> simp [objSame, predSame]

theorem inWindow_holds (lo : QOpts) (c : Clause) (v : TView) (p : Pred) (hv : v.pnano = p.anchor.map (·.nanos)) :
    inWindow (toLookupOpts (updateTimeBounds lo c) 0) v = (fetchWindow lo c).holds p := by
  have ⟨h1, h2⟩ := fetchWindow_bounds lo c
  unfold inWindow Window.holds
  rw [hv, h1, h2]
  cases p with
  | imm i => rfl
  | tmp i t =>
    simp only [Pred.anchor, toLookupOpts, Option.map_some]
    cases (updateTimeBounds lo c).lower <;> cases (updateTimeBounds lo c).upper <;> rfl

theorem fixedMatch_consts (q : QGraph) (c : Clause) (v : TView) (t : Triple) (ht : t ∈ scanOf q)
    (hks : v.ks = preNode t.s) (hpid : v.pid = t.p.id) (hpn : v.pnano = t.p.anchor.map (·.nanos))
    (hko : preObj false t.o = some v.ko)
    (hapS : ∀ s, c.s = some s → ∀ t ∈ scanOf q, preNode s = preNode t.s → s = t.s)
    (hapO : ∀ o, c.o = some o → ∀ t ∈ scanOf q, preObj false o = preObj false t.o → objSame o t.o = true) :
    fixedMatch c.s c.p (c.o.bind (preObj false)) v = constsMatch c t := by
  unfold fixedMatch constsMatch
  congr 1
  · congr 1
    · cases hs : c.s with
      | none => rfl
      | some s =>
        simp only [hks]
        rw [Bool.eq_iff_iff]
        simp only [beq_iff_eq]
        constructor
        · intro h; exact hapS s hs t ht h.symm
        · intro h; rw [h]
    · cases hp : c.p with
      | none => rfl
      | some p =>
        simp only [predMatches, predPQ, predSame, hpid, hpn]
  · cases ho : c.o with
    | none => rfl
    | some o =>
      obtain ⟨b, hb⟩ := preObj_false_some o
      simp only [Option.bind_some, hb]
      rw [Bool.eq_iff_iff]
      simp only [beq_iff_eq]
      constructor
      · intro h
        apply hapO o ho t ht
        rw [hb, hko, h]
      · intro h
        have := objSame_preObj h
        rw [hb, hko] at this
        injection this with this
        exact this.symm

/-- The reference's matches of a clause on the triples of one graph (rows that bind something). -/
def specRows (c : Clause) (w : Window) (scan : List Triple) : List Row :=
  (scan.filterMap (matchClause c w)).filter fun r => !r.isEmpty

theorem matchClause_fetchRow (c : Clause) (w : Window) (t : Triple) (ht : Tight c w) (r : Row) :
    (matchClause c w t = some r ∧ r.isEmpty = false) ↔
      (constsMatch c t = true ∧ w.holds t.p = true ∧ fetchRow c t = some r) := by
  rw [matchClause_eq c w t ht]
  unfold fetchRow
  by_cases hc : constsMatch c t = true <;> by_cases hw : w.holds t.p = true <;>
    by_cases hi : shouldIgnore t c = true <;> simp [hc, hw, hi]
  cases specBind c t with
  | none => simp
  | some r' =>
    by_cases he : r'.isEmpty = true <;> simp [he]
    all_goals
      constructor
      · rintro ⟨h1, h2⟩; subst h1; exact ⟨h2, rfl⟩
      · rintro ⟨h1, h2⟩; subst h2; exact ⟨rfl, h1⟩

theorem rb_tripleEq (c : Clause) (t : Triple) (rb : Triple → Triple)
    (hrb : rb t = t ∨ rb t = { s := c.s.getD t.s, p := c.p.getD t.p, o := c.o.getD t.o })
    (hc : constsMatch c t = true) : TripleEq (rb t) t := by
  rcases hrb with h | h
  · rw [h]; exact TripleEq.refl t
  · rw [h]
    unfold constsMatch at hc
    simp only [Bool.and_eq_true] at hc
    obtain ⟨⟨h1, h2⟩, h3⟩ := hc
    refine ⟨?_, ?_, ?_⟩
    · cases hs : c.s with
      | none => rfl
      | some s => simp only [hs] at h1; simpa using h1
    · cases hp : c.p with
      | none => simp [predSame]
      | some p => simp only [hp] at h2; simpa using h2
    · cases ho : c.o with
      | none => exact (TripleEq.refl t).2.2
      | some o => simp only [ho] at h3; simpa using h3

theorem graphRows_spec (q : QGraph) (hq : Faithful q) (c : Clause) (lo : QOpts) (m : Method) (a : LArgs)
    (rb : Triple → Triple)
    (hm : ∀ v, matchesArgs m a v = fixedMatch c.s c.p (c.o.bind (preObj false)) v)
    (hrb : ∀ t : Triple, rb t = t ∨ rb t = { s := c.s.getD t.s, p := c.p.getD t.p, o := c.o.getD t.o })
    (hapS : ∀ s, c.s = some s → ∀ t ∈ scanOf q, preNode s = preNode t.s → s = t.s)
    (hapO : ∀ o, c.o = some o → ∀ t ∈ scanOf q, preObj false o = preObj false t.o → objSame o t.o = true) :
    SetEq (graphRows c lo m a rb q) (specRows c (fetchWindow lo c) (scanOf q)) := by
  have htight : Tight c (fetchWindow lo c) := tight_clauseWindow _ _ c []
  -- membership in both lists, through the stored views
  have memL : ∀ r, r ∈ graphRows c lo m a rb q ↔ ∃ v ∈ q.g.master, ∃ t, q.uni v.id = some t ∧
      matchesArgs m a v = true ∧ inWindow (toLookupOpts (updateTimeBounds lo c) 0) v = true ∧ fetchRow c (rb t) = some r := by
    intro r
    unfold graphRows QGraph.triples
    simp only [List.mem_filterMap, List.mem_map]
    constructor
    · rintro ⟨t', ⟨t, ⟨v, hv, hu⟩, rfl⟩, hf⟩
      have hv' := (List.mergeSort_perm _ _).mem_iff.mp hv
      have h1 := List.mem_filter.mp hv'
      have h2 := List.mem_filter.mp h1.1
      exact ⟨v, h2.1, t, hu, h2.2, h1.2, hf⟩
    · rintro ⟨v, hv, t, hu, h1, h2, hf⟩
      refine ⟨rb t, ⟨t, ⟨v, ?_, hu⟩, rfl⟩, hf⟩
      exact (List.mergeSort_perm _ _).mem_iff.mpr (List.mem_filter.mpr ⟨List.mem_filter.mpr ⟨hv, h1⟩, h2⟩)
  have memR : ∀ r, r ∈ specRows c (fetchWindow lo c) (scanOf q) ↔ ∃ v ∈ q.g.master, ∃ t, q.uni v.id = some t ∧
      matchClause c (fetchWindow lo c) t = some r ∧ r.isEmpty = false := by
    intro r
    unfold specRows scanOf QGraph.triples
    simp only [List.mem_filter, List.mem_filterMap, Bool.not_eq_true']
    constructor
    · rintro ⟨⟨t, ⟨v, hv, hu⟩, hmc⟩, he⟩; exact ⟨v, hv, t, hu, hmc, he⟩
    · rintro ⟨v, hv, t, hu, hmc, he⟩; exact ⟨⟨t, ⟨v, hv, hu⟩, hmc⟩, he⟩
  -- the pointwise facts for a stored view and its triple
  have point : ∀ v ∈ q.g.master, ∀ t, q.uni v.id = some t →
      (matchesArgs m a v = constsMatch c t) ∧
      (inWindow (toLookupOpts (updateTimeBounds lo c) 0) v = (fetchWindow lo c).holds t.p) := by
    intro v hv t hu
    obtain ⟨t0, hu0, hks, hpid, hpn, hko⟩ := hq v hv
    rw [hu] at hu0; injection hu0 with hu0; subst hu0
    have htm : t ∈ scanOf q := by
      unfold scanOf QGraph.triples
      exact List.mem_filterMap.mpr ⟨v, hv, hu⟩
    exact ⟨by rw [hm, fixedMatch_consts q c v t htm hks hpid hpn hko hapS hapO], inWindow_holds lo c v t.p hpn⟩
  constructor
  · intro r hr
    obtain ⟨v, hv, t, hu, h1, h2, hf⟩ := (memL r).mp hr
    obtain ⟨p1, p2⟩ := point v hv t hu
    rw [p1] at h1; rw [p2] at h2
    have heq := fetchRow_congr c (rb_tripleEq c t rb (hrb t) h1)
    rw [hf] at heq
    cases hft : fetchRow c t with
    | none => rw [hft] at heq; exact heq.elim
    | some r' =>
      rw [hft] at heq
      refine ⟨r', (memR r').mpr ⟨v, hv, t, hu, ?_⟩, heq.1⟩
      exact (matchClause_fetchRow c _ t htight r').mpr ⟨h1, h2, hft⟩
  · intro r' hr'
    obtain ⟨v, hv, t, hu, hmc, he⟩ := (memR r').mp hr'
    obtain ⟨p1, p2⟩ := point v hv t hu
    obtain ⟨h1, h2, hft⟩ := (matchClause_fetchRow c _ t htight r').mp ⟨hmc, he⟩
    have heq := fetchRow_congr c (rb_tripleEq c t rb (hrb t) h1)
    rw [hft] at heq
    cases hf : fetchRow c (rb t) with
    | none => rw [hf] at heq; exact heq.elim
    | some r =>
      rw [hf] at heq
      exact ⟨r, (memL r).mpr ⟨v, hv, t, hu, by rw [p1]; exact h1, by rw [p2]; exact h2, hf⟩, heq.1⟩

theorem specRows_flatMap {α : Type} (c : Clause) (w : Window) (l : List α) (f : α → List Triple) :
    specRows c w (l.flatMap f) = l.flatMap fun a => specRows c w (f a) := by
  unfold specRows
  induction l with
  | nil => rfl
  | cons a l ih => simp only [List.flatMap_cons, List.filterMap_append, List.filter_append, ih]

/-- Anchors that the store's 64-bit key cannot tell apart are equal (known finding D04 otherwise). -/
def AnchorsApart (gs : List QGraph) (c : Clause) : Prop :=
  ∀ p, c.p = some p → ∀ q ∈ gs, ∀ t ∈ scanOf q,
    (p.anchor.map (·.nanos)).map wrap64 = (t.p.anchor.map (·.nanos)).map wrap64 →
    p.anchor.map (·.nanos) = t.p.anchor.map (·.nanos)

theorem inTimeBounds_holds (lo : QOpts) (c : Clause) (p : Pred) :
    inTimeBounds p (updateTimeBounds lo c) = (fetchWindow lo c).holds p := by
  have ⟨h1, h2⟩ := fetchWindow_bounds lo c
  unfold inTimeBounds Window.holds
  rw [h1, h2]
  cases p with
  | imm i => rfl
  | tmp i t =>
    simp only
    cases (updateTimeBounds lo c).lower <;> cases (updateTimeBounds lo c).upper <;>
      simp [timeBefore, timeAfter] <;> (try (rw [Bool.eq_iff_iff]; simp; try omega))

theorem holds_congr (w : Window) {p p' : Pred} (h : predSame p p' = true) : w.holds p = w.holds p' := by
  have ⟨_, h2⟩ := predSame_parts h
  cases p <;> cases p' <;> simp [Pred.anchor] at h2 <;> simp [Window.holds, h2]

end BW.Proofs.Planner
