/-
Injectivity of the UUID pre-images (helper lemmas for C06, C01).
-/
import BW.Model.Value

set_option linter.unusedSimpArgs false

namespace BW.Proofs.UUID
open BW.Model

/-! ### uvarint is a prefix code -/

def decU : Nat → Bytes → Option (Nat × Bytes)
  | 0, _ => none
  | _ + 1, [] => none
  | f + 1, b :: rest =>
    if b.toNat < 128 then some (b.toNat, rest)
    else match decU f rest with
      | some (v, r) => some (b.toNat - 128 + 128 * v, r)
      | none => none

theorem u8_small (x : Nat) (h : x < 256) : (UInt8.ofNat x).toNat = x := by
  simp [UInt8.toNat_ofNat, Nat.mod_eq_of_lt h]

theorem decU_uvarint (f x : Nat) (rest : Bytes) (h : x < 128 ^ (f + 1)) :
    decU (f + 1) (uvarint (f + 1) x ++ rest) = some (x, rest) := by
  induction f generalizing x with
  | zero =>
    have hx : x < 128 := by simpa using h
    simp only [uvarint, hx, if_true, List.cons_append, List.nil_append, decU]
    rw [u8_small x (by omega)]
    simp [hx]
  | succ f ih =>
    unfold uvarint
    by_cases hx : x < 128
    · simp only [hx, if_true, List.cons_append, List.nil_append, decU]
      rw [u8_small x (by omega)]
      simp [hx]
    · simp only [hx, if_false, List.cons_append, decU]
      have hb : (UInt8.ofNat (x % 128 + 128)).toNat = x % 128 + 128 := u8_small _ (by omega)
      rw [hb]
      have : ¬ (x % 128 + 128 < 128) := by omega
      simp only [this, if_false]
      have hdiv : x / 128 < 128 ^ (f + 1) := by
        rw [Nat.pow_succ] at h
        exact Nat.div_lt_of_lt_mul (by rw [Nat.mul_comm]; exact h)
      rw [ih (x / 128) hdiv]
      simp only [Option.some.injEq, Prod.mk.injEq, and_true]
      omega

theorem uvarint_length (f x : Nat) : (uvarint f x).length ≤ f := by
  induction f generalizing x with
  | zero => simp [uvarint]
  | succ f ih =>
    unfold uvarint
    by_cases hx : x < 128
    · simp [hx]
    · simp only [hx, if_false, List.length_cons]
      have := ih (x / 128)
      omega

/-! ### varint (zig-zag + uvarint), with zero padding -/

def IsInt64 (x : Int) : Prop := -9223372036854775808 ≤ x ∧ x < 9223372036854775808

theorem zigzag_inj (x y : Int) (h : zigzag x = zigzag y) : x = y := by
  unfold zigzag at h
  by_cases hx : x ≥ 0 <;> by_cases hy : y ≥ 0 <;> simp only [hx, hy, if_true, if_false] at h <;> omega

theorem zigzag_lt (x : Int) (h : IsInt64 x) : zigzag x < 128 ^ 10 := by
  unfold zigzag IsInt64 at *
  have : (128 : Nat) ^ 10 = 1180591620717411303424 := by decide
  rw [this]
  by_cases hx : x ≥ 0 <;> simp only [hx, if_true, if_false] <;> omega

/-- Decoding the padded buffer gives the value back: padding cannot be confused with payload. -/
theorem dec_varint_pad (x : Int) (h : IsInt64 x) (n : Nat) :
    (decU 10 (padTo n (varint x))).map (·.1) = some (zigzag x) := by
  unfold padTo varint
  rw [decU_uvarint 9 (zigzag x) _ (zigzag_lt x h)]
  rfl

theorem varint_pad_inj (x y : Int) (hx : IsInt64 x) (hy : IsInt64 y) (n : Nat)
    (h : padTo n (varint x) = padTo n (varint y)) : x = y := by
  have h1 := dec_varint_pad x hx n
  have h2 := dec_varint_pad y hy n
  rw [h] at h1
  rw [h1] at h2
  injection h2 with h2
  exact zigzag_inj x y h2

theorem toInt64_range (n : Int) : IsInt64 (toInt64 n) := by
  unfold toInt64 IsInt64; omega

theorem toInt64_eq_iff (a b : Int) :
    toInt64 a = toInt64 b ↔ a % 18446744073709551616 = b % 18446744073709551616 := by
  unfold toInt64; omega

theorem toInt64_of_range (n : Int) (h : IsInt64 n) : toInt64 n = n := by
  unfold toInt64 IsInt64 at *; omega

theorem padTo_length (n : Nat) (b : Bytes) (h : b.length ≤ n) : (padTo n b).length = n := by
  unfold padTo; simp; omega

theorem varint_length (x : Int) : (varint x).length ≤ 10 := uvarint_length 10 _

/-! ### Predicates -/

theorem padTo_getLast_zero (b : Bytes) (h : b.length < 16) :
    (padTo 16 b).getLast? = some 0 := by
  unfold padTo
  have : 16 - b.length = (16 - b.length - 1) + 1 := by omega
  rw [this, List.replicate_succ', ← List.append_assoc, List.getLast?_append]
  simp

theorem immutable_getLast (i : Bytes) : (i ++ immutableBytes).getLast? = some 101 := by
  rw [List.getLast?_append]
  have : immutableBytes.getLast? = some 101 := by decide
  simp [this]

/-- `Predicate.UUID` pre-images agree exactly when identifier, kind and 64-bit instant agree. -/
theorem prePred_inj (p q : Pred) (h : prePred p = prePred q) :
    p.id = q.id ∧ p.anchor.map (fun t => toInt64 t.nanos) = q.anchor.map (fun t => toInt64 t.nanos) := by
  cases p with
  | imm i =>
    cases q with
    | imm j =>
      simp only [prePred] at h
      exact ⟨List.append_cancel_right h, rfl⟩
    | tmp j t =>
      simp only [prePred] at h
      have h1 := immutable_getLast i
      rw [h, List.getLast?_append] at h1
      have hl : (varint (toInt64 t.nanos)).length < 16 := by have := varint_length (toInt64 t.nanos); omega
      rw [padTo_getLast_zero _ hl] at h1
      simp at h1
  | tmp i t =>
    cases q with
    | imm j =>
      simp only [prePred] at h
      have h1 := immutable_getLast j
      rw [← h, List.getLast?_append] at h1
      have hl : (varint (toInt64 t.nanos)).length < 16 := by have := varint_length (toInt64 t.nanos); omega
      rw [padTo_getLast_zero _ hl] at h1
      simp at h1
    | tmp j u =>
      simp only [prePred] at h
      have l1 : (padTo 16 (varint (toInt64 t.nanos))).length = 16 :=
        padTo_length _ _ (by have := varint_length (toInt64 t.nanos); omega)
      have l2 : (padTo 16 (varint (toInt64 u.nanos))).length = 16 :=
        padTo_length _ _ (by have := varint_length (toInt64 u.nanos); omega)
      obtain ⟨hid, hsuf⟩ := List.append_inj' h (by rw [l1, l2])
      refine ⟨hid, ?_⟩
      simp only [Pred.anchor, Option.map_some]
      rw [varint_pad_inj _ _ (toInt64_range _) (toInt64_range _) 16 hsuf]

theorem prePred_congr (p q : Pred) (hid : p.id = q.id)
    (ha : p.anchor.map (fun t => toInt64 t.nanos) = q.anchor.map (fun t => toInt64 t.nanos)) :
    prePred p = prePred q := by
  cases p <;> cases q <;> simp_all [prePred, Pred.id, Pred.anchor]

/-- The zone of an anchor is irrelevant. -/
theorem zone_irrelevant (i : Bytes) (n o₁ o₂ : Int) : prePred (.tmp i ⟨n, o₁⟩) = prePred (.tmp i ⟨n, o₂⟩) := rfl

/-- The full predicate UUID determines the partial one (used by the index model). -/
theorem prePred_determines_partial (p q : Pred) (h : prePred p = prePred q) :
    prePredPartial p = prePredPartial q := (prePred_inj p q h).1

/-! ### Literals -/

def decLE : Bytes → Nat
  | [] => 0
  | b :: bs => b.toNat + 256 * decLE bs

theorem decLE_leBytes (k x : Nat) : decLE (leBytes k x) = x % 256 ^ k := by
  induction k generalizing x with
  | zero => simp [leBytes, decLE, Nat.mod_one]
  | succ k ih =>
    simp only [leBytes, decLE]
    rw [ih, u8_small _ (Nat.mod_lt _ (by decide)), Nat.pow_succ, Nat.mul_comm (256 ^ k) 256, Nat.mod_mul]

theorem leBytes8_inj (x y : Nat) (hx : x < 2 ^ 64) (hy : y < 2 ^ 64) (h : leBytes 8 x = leBytes 8 y) : x = y := by
  have h1 := decLE_leBytes 8 x
  have h2 := decLE_leBytes 8 y
  rw [h] at h1
  have e : (256 : Nat) ^ 8 = 2 ^ 64 := by decide
  rw [e] at h1 h2
  rw [Nat.mod_eq_of_lt hx] at h1
  rw [Nat.mod_eq_of_lt hy] at h2
  omega

/-- Within one literal type the pre-image is injective (after the D03 repair every int64 has one). -/
theorem preLit_inj_within_type (a b : Lit) (ha : preLit false a = preLit false b) :
    (∀ x y, a = .bool x → b = .bool y → x = y) ∧
    (∀ x y, a = .int x → b = .int y → IsInt64 x → IsInt64 y → x = y) ∧
    (∀ x y, a = .float x → b = .float y → x < 2 ^ 64 → y < 2 ^ 64 → x = y) ∧
    (∀ x y, a = .text x → b = .text y → x = y) ∧
    (∀ x y, a = .blob x → b = .blob y → x = y) := by
  refine ⟨?_, ?_, ?_, ?_, ?_⟩
  · intro x y hx hy; subst hx hy
    cases x <;> cases y <;> first | rfl | (exfalso; revert ha; decide)
  · intro x y hx hy h1 h2; subst hx hy
    simp only [preLit, Bool.false_and, Bool.false_eq_true, if_false, Option.some.injEq] at ha
    exact varint_pad_inj x y h1 h2 8 ha
  · intro x y hx hy h1 h2; subst hx hy
    simp only [preLit, Option.some.injEq] at ha
    exact leBytes8_inj x y h1 h2 ha
  · intro x y hx hy; subst hx hy
    simpa [preLit] using ha
  · intro x y hx hy; subst hx hy
    simpa [preLit] using ha

/-- Every int64 literal has a UUID after the repair; before it, those needing a 9–10 byte varint
    did not (`preLit true`). -/
theorem preLit_defined (l : Lit) : (preLit false l).isSome = true := by
  cases l with
  | bool b => cases b <;> rfl
  | _ => rfl

theorem preLit_quirk_undefined : preLit true (.int 36028797018963968) = none := by decide  -- 2^55

/-! ### Nodes -/

theorem preNode_inj_same_type (a b : Node) (ht : a.ty = b.ty) (h : preNode a = preNode b) : a = b := by
  obtain ⟨t1, i1⟩ := a; obtain ⟨t2, i2⟩ := b
  simp only [preNode] at *
  subst ht
  have := List.append_cancel_left h
  rw [this]

theorem preNode_inj_same_id (a b : Node) (hi : a.id = b.id) (h : preNode a = preNode b) : a = b := by
  obtain ⟨t1, i1⟩ := a; obtain ⟨t2, i2⟩ := b
  simp only [preNode] at *
  subst hi
  have := List.append_cancel_right h
  rw [this]

/-! ### Closed counter-witnesses: where the pre-image is *not* injective (D02, D04) -/

theorem pre_node_collision :
    preNode ⟨[47, 97], [98, 99]⟩ = preNode ⟨[47, 97, 98], [99]⟩ ∧      -- /a<bc> vs /ab<c>
    (⟨[47, 97], [98, 99]⟩ : Node) ≠ ⟨[47, 97, 98], [99]⟩ := by decide

theorem pre_lit_collision_text_bool :
    preLit false (.text [116, 114, 117, 101]) = preLit false (.bool true) := by decide

theorem pre_lit_collision_int_float_blob :
    preLit false (.int 0) = preLit false (.float 0) ∧
    preLit false (.int 0) = preLit false (.blob [0, 0, 0, 0, 0, 0, 0, 0]) := by decide

theorem pre_obj_collision_node_text :
    preObj false (.node ⟨[47, 117], [97]⟩) = preObj false (.lit (.text [47, 117, 97])) := by decide

theorem pre_anchor_wrap (i : Bytes) (n o : Int) :
    prePred (.tmp i ⟨n, o⟩) = prePred (.tmp i ⟨n + 18446744073709551616, o⟩) := by
  have : toInt64 n = toInt64 (n + 18446744073709551616) := by
    rw [toInt64_eq_iff]; omega
  simp [prePred, this]

end BW.Proofs.UUID
