/-
Facts about the planner model and the reference semantics (helper lemmas for C03, C10, C12, C14).
-/
import BW.Model.Query
import BW.Spec.Query

set_option linter.unusedSimpArgs false
set_option linter.unusedVariables false

namespace BW.Proofs.Query
open BW.Model BW.Spec

/-- `r'` extends `r`: the same cells for the bindings of `r`, possibly more bindings after them. -/
def Extends (r' r : Row) : Prop := ∃ ext, r' = r ++ ext

theorem merge_extends (a b : Row) : Extends (a.merge b) a := ⟨_, rfl⟩

theorem get_append_left (a ext : Row) (k : Bytes) (h : a.has k = true) : (a ++ ext).get k = a.get k := by
  unfold Row.get Row.has at *
  induction a with
  | nil => simp at h
  | cons p a ih =>
    simp only [List.cons_append, List.find?_cons]
    by_cases hp : (p.1 == k) = true
    · simp [hp]
    · simp only [hp]
      simp only [List.any_cons, hp, Bool.false_or] at h
      exact ih h

/-- A merge never changes the value a row already has for a binding. -/
theorem merge_keeps (a b : Row) (k : Bytes) (h : a.has k = true) : (a.merge b).get k = a.get k :=
  get_append_left a _ k h

/-! ### OPTIONAL never removes rows (planner model) -/

theorem joinRow_optional (r : Row) (bs : List Bytes) (fetched : List Row) :
    joinRow r true bs fetched ≠ [] ∧ ∀ r' ∈ joinRow r true bs fetched, Extends r' r := by
  unfold joinRow
  simp only
  by_cases he : (fetched.filter (compatibleRows r)).isEmpty = true
  · simp only [he, Bool.and_true, if_true]
    exact ⟨by simp, fun r' hr => by simp at hr; subst hr; exact merge_extends _ _⟩
  · simp only [he, Bool.false_and, Bool.false_eq_true, if_false]
    constructor
    · intro hnil
      have : (fetched.filter (compatibleRows r)) = [] := by simpa using hnil
      simp [this] at he
    · intro r' hr
      obtain ⟨nr, _, rfl⟩ := List.mem_map.mp hr
      exact merge_extends _ _

/-- Joining a row never yields rows that disagree with it. -/
theorem joinRow_extends (r : Row) (opt : Bool) (bs : List Bytes) (fetched : List Row) :
    ∀ r' ∈ joinRow r opt bs fetched, Extends r' r := by
  unfold joinRow
  simp only
  split
  · intro r' hr; simp at hr; subst hr; exact merge_extends _ _
  · intro r' hr
    obtain ⟨nr, _, rfl⟩ := List.mem_map.mp hr
    exact merge_extends _ _

/-- Only fetched rows that agree with the row on every shared binding are joined. -/
theorem joinRow_compatible (r : Row) (bs : List Bytes) (fetched : List Row) (r' : Row)
    (h : r' ∈ joinRow r false bs fetched) : ∃ nr ∈ fetched, compatibleRows r nr = true ∧ r' = r.merge nr := by
  unfold joinRow at h
  simp only [Bool.and_false, Bool.false_eq_true, if_false] at h
  obtain ⟨nr, hnr, rfl⟩ := List.mem_map.mp h
  exact ⟨nr, (List.mem_filter.mp hnr).1, (List.mem_filter.mp hnr).2, rfl⟩

theorem leftOptional_keeps (t : Tbl) (bs : List Bytes) (rows : List Row) (t' : Tbl)
    (h : t.leftOptional bs rows = .ok t') : ∀ r ∈ t.rows, ∃ r' ∈ t'.rows, Extends r' r := by
  unfold Tbl.leftOptional at h
  split at h
  · injection h with h; subst h
    intro r hr; exact ⟨r, hr, [], by simp⟩
  · split at h
    · injection h with h; subst h
      intro r hr
      exact ⟨_, List.mem_map.mpr ⟨r, hr, rfl⟩, merge_extends _ _⟩
    · rename_i hne hcase
      unfold Tbl.dot at h
      split at h
      · cases h
      · injection h with h; subst h
        intro r hr
        -- the optional side has rows here: otherwise the previous branch (or an error) applies
        simp only [Bool.and_eq_true, not_and, Bool.not_eq_true] at hcase
        rename_i hdis
        have hd : disjointSet t.bindings bs = true := by simpa using hdis
        have hne' : rows.isEmpty = false := hcase hd
        cases rows with
        | nil => simp at hne'
        | cons x xs =>
          refine ⟨r.merge x, ?_, merge_extends _ _⟩
          simp only [List.mem_flatMap]
          exact ⟨r, hr, by simp⟩

theorem addSpecifiedData_optional (F : Facts) (gs : List QGraph) (r : Row) (c : Clause) (lo : QOpts) (lim : Int)
    (rows : List Row) (hc : c.optional = true) (h : addSpecifiedData F gs r c lo lim = .ok rows) :
    rows ≠ [] ∧ ∀ r' ∈ rows, Extends r' r := by
  unfold addSpecifiedData at h
  simp only [bind, Except.bind] at h
  split at h
  · cases h
  · rename_i cl heq
    split at h
    · -- the clause extracts nothing: the row itself is kept
      split at h
      · cases h
      · rename_i fetched hf
        simp only [pure, Except.pure, hc, Bool.or_true, if_true] at h
        injection h with h
        subst h
        exact ⟨by simp, fun r' hr' => by simp at hr'; subst hr'; exact ⟨[], by simp⟩⟩
    · split at h
      · cases h
      · rename_i fetched hf
        simp only [pure, Except.pure] at h
        injection h with h
        subst h
        rw [hc]
        exact joinRow_optional r _ fetched

theorem specifyAll_optional (F : Facts) (gs : List QGraph) (c : Clause) (lo : QOpts) (lim : Int) (hc : c.optional = true)
    (rows out : List Row) (h : specifyAll F gs c lo lim rows = .ok out) :
    ∀ r ∈ rows, ∃ r' ∈ out, Extends r' r := by
  induction rows generalizing out with
  | nil => intro r hr; cases hr
  | cons x xs ih =>
    unfold specifyAll at h
    split at h
    · cases h
    · rename_i a ha
      split at h
      · cases h
      · rename_i b hb
        injection h with h
        subst h
        intro r hr
        rcases List.mem_cons.mp hr with rfl | hr
        · obtain ⟨hne, hext⟩ := addSpecifiedData_optional F gs r c lo lim a hc ha
          cases a with
          | nil => exact absurd rfl hne
          | cons y ys => exact ⟨y, by simp, hext y (by simp)⟩
        · obtain ⟨r', hr', he⟩ := ih b hb r hr
          exact ⟨r', List.mem_append_right _ hr', he⟩

/-- The planner never removes a row when it processes an OPTIONAL clause, and never declares the
    pattern unresolvable because of it. -/
theorem processClause_optional_keeps (F : Facts) (gs : List QGraph) (tbl : Tbl) (c : Clause) (lo : QOpts) (lim : Int)
    (t : Tbl) (u : Bool) (hc : c.optional = true) (h : processClause F gs tbl c lo lim = .ok (t, u)) :
    u = false ∧ ∀ r ∈ tbl.rows, ∃ r' ∈ t.rows, Extends r' r := by
  have self : ∀ r ∈ tbl.rows, ∃ r' ∈ tbl.rows, Extends r' r := fun r hr => ⟨r, hr, [], by simp⟩
  unfold processClause at h
  split at h
  · injection h with h; injection h with h1 h2; subst h1; subst h2
    exact ⟨rfl, self⟩
  · split at h
    · injection h with h; injection h with h1 h2; subst h1; subst h2
      exact ⟨rfl, self⟩
    · simp only at h
      split at h
      · -- no clause binding in the table yet
        simp only [bind, Except.bind] at h
        split at h
        · cases h
        · rename_i fetched hf
          split at h
          · split at h
            · cases h
            · rename_i t' ht'
              simp only [pure, Except.pure] at h
              injection h with h; injection h with h1 h2; subst h1; subst h2
              exact ⟨rfl, leftOptional_keeps tbl _ _ _ ht'⟩
          · split at h
            · cases h
            · rename_i t' ht'
              simp only [pure, Except.pure] at h
              injection h with h; injection h with h1 h2; subst h1; subst h2
              refine ⟨rfl, ?_⟩
              unfold Tbl.append at ht'
              split at ht'
              · cases ht'
              · injection ht' with ht'; subst ht'
                intro r hr
                exact ⟨r, List.mem_append_left _ hr, [], by simp⟩
      · simp only [bind, Except.bind] at h
        split at h
        · cases h
        · rename_i out ho
          simp only [pure, Except.pure] at h
          injection h with h; injection h with h1 h2; subst h2
          refine ⟨rfl, ?_⟩
          have := specifyAll_optional F gs c lo lim hc tbl.rows out ho
          subst h1
          intro r hr
          obtain ⟨r', hr', he⟩ := this r hr
          refine ⟨r', ?_, he⟩
          split <;> simpa [Tbl.addBindings] using hr'

/-! ### LIMIT -/

theorem limitRows_prefix (n : Int) (rows : List Row) (hn : 0 ≤ n) :
    limitRows n rows = rows.take (min n.toNat rows.length) := by
  unfold limitRows
  by_cases h : (rows.length : Int) > n
  · simp only [h, if_true]
    have : min n.toNat rows.length = n.toNat := by omega
    rw [this]
  · simp only [h, if_false]
    have : min n.toNat rows.length = rows.length := by omega
    rw [this, List.take_length]

/-! ### Reference semantics -/

/-- A match of a clause on a triple respects the clause's constants and the time window. -/
theorem matchClause_sound (c : Clause) (w : Window) (t : Triple) (r : Row) (h : matchClause c w t = some r) :
    constsMatch c t = true ∧ w.holds t.p = true := by
  unfold matchClause at h
  by_cases h1 : constsMatch c t = true
  · by_cases h2 : w.holds t.p = true
    · exact ⟨h1, h2⟩
    · simp only [h1, Bool.not_true, Bool.false_eq_true, if_false] at h
      split at h
      · cases h
      · split at h
        · cases h
        · simp [h2] at h
  · simp [h1] at h

/-- An OPTIONAL step of the reference semantics keeps every row (the definition of left outer join). -/
theorem joinClause_optional_keeps (scan : List Triple) (glo ghi : Option Int) (rows : List Row) (c : Clause)
    (hc : c.optional = true) : ∀ r ∈ rows, ∃ r' ∈ joinClause scan glo ghi rows c, Extends r' r := by
  intro r hr
  unfold joinClause
  simp only [hc, if_true, List.mem_flatMap]
  by_cases he : ((scan.filterMap (matchClause c (clauseWindow glo ghi c r))).filter (compatible r)).isEmpty = true
  · exact ⟨_, ⟨r, hr, by simp only [he, if_true]; exact List.mem_singleton.mpr rfl⟩, merge_extends _ _⟩
  · cases hm : (scan.filterMap (matchClause c (clauseWindow glo ghi c r))).filter (compatible r) with
    | nil => simp [hm] at he
    | cons x xs =>
      refine ⟨r.merge x, ⟨r, hr, ?_⟩, merge_extends _ _⟩
      simp [hm]

/-- …and, when nothing matches, it contributes the row exactly once with the new bindings NULL. -/
theorem joinClause_optional_nomatch (scan : List Triple) (glo ghi : Option Int) (r : Row) (c : Clause)
    (hc : c.optional = true)
    (hn : (scan.filterMap (matchClause c (clauseWindow glo ghi c r))).filter (compatible r) = []) :
    joinClause scan glo ghi [r] c = [r.merge ((c.bindings.filter (fun k => !r.has k)).map fun k => (k, Cell.null))] := by
  simp [joinClause, hc, hn]

/-- Every row a mandatory step produces extends an input row by a compatible match. -/
theorem joinClause_mandatory (scan : List Triple) (glo ghi : Option Int) (rows : List Row) (c : Clause)
    (hc : c.optional = false) (r' : Row) (h : r' ∈ joinClause scan glo ghi rows c) :
    ∃ r ∈ rows, ∃ t ∈ scan, ∃ m, matchClause c (clauseWindow glo ghi c r) t = some m ∧ compatible r m = true ∧ r' = r.merge m := by
  unfold joinClause at h
  simp only [hc, Bool.false_eq_true, if_false, List.mem_flatMap] at h
  obtain ⟨r, hr, hmem⟩ := h
  obtain ⟨m, hm, rfl⟩ := List.mem_map.mp hmem
  obtain ⟨hm1, hm2⟩ := List.mem_filter.mp hm
  obtain ⟨t, ht, htm⟩ := List.mem_filterMap.mp hm1
  exact ⟨r, hr, t, ht, m, htm, hm2, rfl⟩

/-- Monotonicity of one mandatory step in the data: more triples, no fewer rows. -/
theorem joinClause_mono (scan scan' : List Triple) (glo ghi : Option Int) (rows rows' : List Row) (c : Clause)
    (hc : c.optional = false) (hs : ∀ t ∈ scan, t ∈ scan') (hr : ∀ r ∈ rows, r ∈ rows') :
    ∀ r ∈ joinClause scan glo ghi rows c, r ∈ joinClause scan' glo ghi rows' c := by
  intro r' h
  obtain ⟨r, hrm, t, ht, m, htm, hcomp, rfl⟩ := joinClause_mandatory scan glo ghi rows c hc r' h
  unfold joinClause
  simp only [hc, Bool.false_eq_true, if_false, List.mem_flatMap]
  refine ⟨r, hr r hrm, ?_⟩
  apply List.mem_map.mpr
  exact ⟨m, List.mem_filter.mpr ⟨List.mem_filterMap.mpr ⟨t, hs t ht, htm⟩, hcomp⟩, rfl⟩

/-- Adding triples never removes solutions of a pattern without OPTIONAL. -/
theorem solutions_mono (scan scan' : List Triple) (glo ghi : Option Int) (cs : List Clause)
    (hc : ∀ c ∈ cs, c.optional = false) (hs : ∀ t ∈ scan, t ∈ scan') :
    ∀ r ∈ solutions scan glo ghi cs, r ∈ solutions scan' glo ghi cs := by
  unfold solutions
  suffices H : ∀ (rows rows' : List Row), (∀ r ∈ rows, r ∈ rows') →
      ∀ r ∈ cs.foldl (joinClause scan glo ghi) rows, r ∈ cs.foldl (joinClause scan' glo ghi) rows' from
    H [[]] [[]] (fun r h => h)
  induction cs with
  | nil => intro rows rows' h r hr; exact h r hr
  | cons c cs ih =>
    intro rows rows' h
    simp only [List.foldl_cons]
    apply ih (fun c hc' => hc c (List.mem_cons_of_mem _ hc'))
    exact joinClause_mono scan scan' glo ghi rows rows' c (hc c (by simp)) hs h

/-! ### The solutions do not depend on how the data is laid out -/

theorem flatMap_perm_left {α β : Type} (l : List α) (f g : α → List β) (h : ∀ a ∈ l, (f a).Perm (g a)) :
    (l.flatMap f).Perm (l.flatMap g) := by
  induction l with
  | nil => exact List.Perm.refl _
  | cons a l ih =>
    simp only [List.flatMap_cons]
    exact List.Perm.append (h a (by simp)) (ih fun x hx => h x (List.mem_cons_of_mem _ hx))

/-- One join step yields the same rows (as a multiset) whatever the order of the scanned triples. -/
theorem joinClause_perm_scan (scan scan' : List Triple) (glo ghi : Option Int) (rows : List Row) (c : Clause)
    (hs : scan.Perm scan') : (joinClause scan glo ghi rows c).Perm (joinClause scan' glo ghi rows c) := by
  unfold joinClause
  apply flatMap_perm_left
  intro r _
  have hp : ((scan.filterMap (matchClause c (clauseWindow glo ghi c r))).filter (compatible r)).Perm
      ((scan'.filterMap (matchClause c (clauseWindow glo ghi c r))).filter (compatible r)) :=
    (hs.filterMap _).filter _
  simp only
  by_cases hc : c.optional = true
  · simp only [hc, if_true]
    rw [hp.isEmpty_eq]
    split
    · exact List.Perm.refl _
    · exact hp.map _
  · simp only [hc, Bool.false_eq_true, if_false]
    exact hp.map _

theorem joinClause_perm_rows (scan : List Triple) (glo ghi : Option Int) (rows rows' : List Row) (c : Clause)
    (hr : rows.Perm rows') : (joinClause scan glo ghi rows c).Perm (joinClause scan glo ghi rows' c) := by
  unfold joinClause
  exact hr.flatMap_right _

/-- The multiset of solutions is the same for every order of the scanned triples: in particular for
    every way of partitioning one data set over the graphs listed in FROM. -/
theorem solutions_perm_scan (scan scan' : List Triple) (glo ghi : Option Int) (cs : List Clause) (hs : scan.Perm scan') :
    (solutions scan glo ghi cs).Perm (solutions scan' glo ghi cs) := by
  unfold solutions
  suffices H : ∀ rows rows' : List Row, rows.Perm rows' →
      (cs.foldl (joinClause scan glo ghi) rows).Perm (cs.foldl (joinClause scan' glo ghi) rows') from H _ _ (List.Perm.refl _)
  induction cs with
  | nil => intro rows rows' h; exact h
  | cons c cs ih =>
    intro rows rows' h
    simp only [List.foldl_cons]
    exact ih _ _ ((joinClause_perm_rows scan glo ghi rows rows' c h).trans (joinClause_perm_scan scan scan' glo ghi rows' c hs))

/-! ### Adding triples never removes solutions (multiset form) -/

theorem flatMap_sublist {α β : Type} (l₁ l₂ : List α) (f g : α → List β) (hl : l₁.Sublist l₂) (h : ∀ a, (f a).Sublist (g a)) :
    (l₁.flatMap f).Sublist (l₂.flatMap g) := by
  induction hl with
  | slnil => exact List.Sublist.refl _
  | cons a _ ih =>
    simp only [List.flatMap_cons]
    exact ih.trans (List.sublist_append_right _ _)
  | cons_cons a _ ih =>
    simp only [List.flatMap_cons]
    exact List.Sublist.append (h a) ih

theorem joinClause_sublist (scan scan' : List Triple) (glo ghi : Option Int) (rows rows' : List Row) (c : Clause)
    (hc : c.optional = false) (hs : scan.Sublist scan') (hr : rows.Sublist rows') :
    (joinClause scan glo ghi rows c).Sublist (joinClause scan' glo ghi rows' c) := by
  unfold joinClause
  apply flatMap_sublist _ _ _ _ hr
  intro r
  simp only [hc, Bool.false_eq_true, if_false]
  exact ((hs.filterMap _).filter _).map _

theorem solutions_sublist (scan scan' : List Triple) (glo ghi : Option Int) (cs : List Clause)
    (hc : ∀ c ∈ cs, c.optional = false) (hs : scan.Sublist scan') :
    (solutions scan glo ghi cs).Sublist (solutions scan' glo ghi cs) := by
  unfold solutions
  suffices H : ∀ rows rows' : List Row, rows.Sublist rows' →
      (cs.foldl (joinClause scan glo ghi) rows).Sublist (cs.foldl (joinClause scan' glo ghi) rows') from H _ _ (List.Sublist.refl _)
  induction cs with
  | nil => intro rows rows' h; exact h
  | cons c cs ih =>
    intro rows rows' h
    simp only [List.foldl_cons]
    exact ih (fun c' hc' => hc c' (List.mem_cons_of_mem _ hc')) _ _
      (joinClause_sublist scan scan' glo ghi rows rows' c (hc c (by simp)) hs h)

/-- `a` is contained in `b` as a multiset. -/
def SubMulti {α : Type} (a b : List α) : Prop := ∃ l : List α, l.Perm a ∧ l.Sublist b

/-- With multiplicities: if the data grows (as a multiset of triple occurrences), every solution
    keeps at least its multiplicity. -/
theorem solutions_subperm (scan scan' : List Triple) (glo ghi : Option Int) (cs : List Clause)
    (hc : ∀ c ∈ cs, c.optional = false) (hs : SubMulti scan scan') :
    SubMulti (solutions scan glo ghi cs) (solutions scan' glo ghi cs) := by
  obtain ⟨l, hl, hsub⟩ := hs
  exact ⟨solutions l glo ghi cs, solutions_perm_scan l scan glo ghi cs hl, solutions_sublist l scan' glo ghi cs hc hsub⟩

end BW.Proofs.Query
