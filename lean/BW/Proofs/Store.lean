/-
Index consistency of the in-memory graph (helper lemmas for C01, C02, C09).
-/
import BW.Model.Store
import BW.Spec.Store

namespace BW.Proofs.Store
open BW.Model BW.Spec

/-- Well-formedness of the regenerated facts about memory.go: every look-up reads a bucket that
    `AddTriples` writes and `RemoveTriples` deletes from, keyed by exactly the components the method
    fixes, each index has one key shape, and the query predicate reaches the checker exactly for the
    methods that fix a predicate. -/
def touchOK (F : Facts) (m : Method) : Bool :=
  match F.read m with
  | none => fixedParts m == []
  | some tc =>
    tc.parts == fixedParts m && F.addT.contains tc && F.remT.contains tc &&
    (F.addT ++ F.remT).all fun tc' => !(tc'.idx == tc.idx) || tc'.parts == tc.parts

def allMethods : List Method :=
  [.objects, .subjects, .predsForSO, .predsForS, .predsForO, .triplesForS, .triplesForP, .triplesForO,
   .triplesForSP, .triplesForPO, .triples]

def Facts.WF (F : Facts) : Bool :=
  F.addMaster && F.remMaster &&
  allMethods.all fun m => touchOK F m && (F.usesPred m == fixesPred m) && (F.filterPred m == fixesPred m)

theorem allMethods_complete (m : Method) : m ∈ allMethods := by cases m <;> decide

theorem wf_master {F : Facts} (h : Facts.WF F = true) : F.addMaster = true ∧ F.remMaster = true := by
  unfold Facts.WF at h
  simp only [Bool.and_eq_true] at h
  exact ⟨h.1.1, h.1.2⟩

theorem wf_all {F : Facts} (h : Facts.WF F = true) (m : Method) :
    touchOK F m = true ∧ F.usesPred m = fixesPred m ∧ F.filterPred m = fixesPred m := by
  unfold Facts.WF at h
  simp only [Bool.and_eq_true] at h
  have := List.all_eq_true.mp h.2 m (allMethods_complete m)
  simp only [Bool.and_eq_true, beq_iff_eq] at this
  exact ⟨this.1.1, this.1.2, this.2⟩

theorem wf_touch {F : Facts} (h : Facts.WF F = true) (m : Method) : touchOK F m = true := (wf_all h m).1

theorem wf_usesPred {F : Facts} (h : Facts.WF F = true) (m : Method) : F.usesPred m = fixesPred m :=
  (wf_all h m).2.1

theorem wf_filterPred {F : Facts} (h : Facts.WF F = true) (m : Method) : F.filterPred m = fixesPred m :=
  (wf_all h m).2.2

theorem reference_wf : Facts.WF Facts.reference = true := by decide

/-- Equal identity keys have equal index keys, whatever the key shape. -/
theorem keyOf_eq_of_key_eq {x t : TView} (h : x.key = t.key) (parts : List KeyPart) :
    keyOf parts x = keyOf parts t := by
  unfold TView.key at h
  have h1 : x.ks = t.ks := by injection h
  have h2 : x.pid = t.pid := by injection h with _ h; injection h
  have h3 : x.ko = t.ko := by injection h with _ h; injection h with _ h; injection h
  unfold keyOf
  apply List.map_congr_left
  intro kp _
  cases kp <;> simp [KeyPart.of, h1, h2, h3]

/-- The invariant: every bucket a look-up can read is exactly the projection of the master index. -/
def Inv (F : Facts) (g : Graph) : Prop :=
  ∀ m tc, F.read m = some tc → ∀ bk, g.sec tc.idx bk = g.master.filter (fun t => keyOf tc.parts t == bk)

theorem inv_empty (F : Facts) : Inv F Graph.empty := by
  intro m tc _ bk; simp [Graph.empty]

section
variable {F : Facts} (hF : Facts.WF F = true)
include hF

theorem read_facts {m : Method} {tc : Touch} (h : F.read m = some tc) :
    tc.parts = fixedParts m ∧ tc ∈ F.addT ∧ tc ∈ F.remT ∧
    ∀ tc' ∈ F.addT ++ F.remT, tc'.idx = tc.idx → tc'.parts = tc.parts := by
  have := wf_touch hF m
  unfold touchOK at this
  rw [h] at this
  simp only [Bool.and_eq_true, beq_iff_eq, List.contains_eq_mem, decide_eq_true_eq, List.all_eq_true,
    Bool.or_eq_true, Bool.not_eq_true'] at this
  obtain ⟨⟨⟨h1, h2⟩, h3⟩, h4⟩ := this
  refine ⟨h1, h2, h3, ?_⟩
  intro tc' hmem hidx
  rcases h4 tc' hmem with h | h
  · simp [hidx] at h
  · exact h

theorem touches_iff {m : Method} {tc : Touch} (h : F.read m = some tc) (ts : List Touch)
    (hts : tc ∈ ts) (hsub : ∀ x ∈ ts, x ∈ F.addT ++ F.remT) (bk : List Bytes) (t : TView) :
    touches ts tc.idx bk t = (keyOf tc.parts t == bk) := by
  obtain ⟨_, _, _, huniq⟩ := read_facts hF h
  unfold touches
  by_cases hk : keyOf tc.parts t == bk
  · rw [hk]
    apply List.any_eq_true.mpr
    exact ⟨tc, hts, by simp [hk]⟩
  · rw [Bool.not_eq_true] at hk
    rw [hk]
    apply List.any_eq_false.mpr
    intro tc' hmem
    by_cases hidx : tc'.idx = tc.idx
    · have := huniq tc' (hsub tc' hmem) hidx
      simp [hidx, this, hk]
    · simp [hidx]

theorem inv_add1 {g : Graph} (hg : Inv F g) (t : TView) : Inv F (g.add1 F t) := by
  intro m tc hread bk
  obtain ⟨_, hadd, _, _⟩ := read_facts hF hread
  have ht := touches_iff hF hread F.addT hadd (fun x hx => List.mem_append_left _ hx) bk t
  simp only [Graph.add1, ht, (wf_master hF).1, if_true]
  rw [hg m tc hread bk]
  by_cases hk : keyOf tc.parts t == bk
  · simp only [hk, if_true, List.filter_cons, List.filter_filter]
    congr 1
    apply List.filter_congr
    intro x _
    exact Bool.and_comm _ _
  · simp only [hk, List.filter_cons, List.filter_filter]
    simp only [Bool.false_eq_true, if_false]
    apply List.filter_congr
    intro x _
    by_cases hx : keyOf tc.parts x == bk
    · simp only [hx, Bool.true_and]
      symm
      simp only [bne_iff_ne, ne_eq]
      intro hkey
      have := keyOf_eq_of_key_eq hkey tc.parts
      rw [this] at hx
      exact hk hx
    · simp [hx]

theorem inv_rem1 {g : Graph} (hg : Inv F g) (t : TView) : Inv F (g.rem1 F t) := by
  intro m tc hread bk
  obtain ⟨_, _, hrem, _⟩ := read_facts hF hread
  have ht := touches_iff hF hread F.remT hrem (fun x hx => List.mem_append_right _ hx) bk t
  simp only [Graph.rem1, ht, (wf_master hF).2, if_true]
  rw [hg m tc hread bk]
  by_cases hk : keyOf tc.parts t == bk
  · simp only [hk, if_true, List.filter_filter]
    apply List.filter_congr
    intro x _
    exact Bool.and_comm _ _
  · simp only [hk, List.filter_filter]
    simp only [Bool.false_eq_true, if_false]
    apply List.filter_congr
    intro x _
    by_cases hx : keyOf tc.parts x == bk
    · simp only [hx, Bool.true_and]
      symm
      simp only [bne_iff_ne, ne_eq]
      intro hkey
      have := keyOf_eq_of_key_eq hkey tc.parts
      rw [this] at hx
      exact hk hx
    · simp [hx]

theorem inv_addAll {g : Graph} (hg : Inv F g) (ts : List TView) : Inv F (g.addAll F ts) := by
  induction ts generalizing g with
  | nil => exact hg
  | cons t ts ih => exact ih (inv_add1 hF hg t)

theorem inv_remAll {g : Graph} (hg : Inv F g) (ts : List TView) : Inv F (g.remAll F ts) := by
  induction ts generalizing g with
  | nil => exact hg
  | cons t ts ih => exact ih (inv_rem1 hF hg t)

end

/-! ### The master index is the specification's set -/

theorem master_add1 {F : Facts} (hF : Facts.WF F = true) (g : Graph) (t : TView) :
    (g.add1 F t).master = SGraph.add g.master t := by
  simp [Graph.add1, (wf_master hF).1, SGraph.add]

theorem master_rem1 {F : Facts} (hF : Facts.WF F = true) (g : Graph) (t : TView) :
    (g.rem1 F t).master = SGraph.rem g.master t := by
  simp [Graph.rem1, (wf_master hF).2, SGraph.rem]

theorem master_addAll {F : Facts} (hF : Facts.WF F = true) (g : Graph) (ts : List TView) :
    (g.addAll F ts).master = SGraph.addAll g.master ts := by
  induction ts generalizing g with
  | nil => rfl
  | cons t ts ih =>
    simp only [Graph.addAll, SGraph.addAll, List.foldl_cons] at *
    rw [ih, master_add1 hF]

theorem master_remAll {F : Facts} (hF : Facts.WF F = true) (g : Graph) (ts : List TView) :
    (g.remAll F ts).master = SGraph.remAll g.master ts := by
  induction ts generalizing g with
  | nil => rfl
  | cons t ts ih =>
    simp only [Graph.remAll, SGraph.remAll, List.foldl_cons] at *
    rw [ih, master_rem1 hF]

end BW.Proofs.Store
