/-
Model of the text forms of the triple layer (C05, C15): `Node.String`/`node.Parse`,
`Predicate.String`/`predicate.Parse`, `Literal.String`/`literal.Parse`, `ParseObject`,
`Triple.String`/`triple.Parse`, and the line protocol of `io.ReadIntoGraph`/`WriteGraph`.

What is modelled is the *structure*: which characters separate the parts and where the parsers cut.
The leaf codecs of the Go standard library are parameters (`Leaf`): `%q` quoting and
`strconv.Unquote`, RFC 3339 time formatting and parsing, float formatting and parsing.  Integers,
booleans and blob bytes are modelled exactly.  Texts are byte strings.
-/
import BW.Model.Value

namespace BW.Model.Text
open BW.Model

structure Leaf where
  quote : Bytes → Bytes                -- fmt %q
  unquote : Bytes → Option Bytes       -- strconv.Unquote
  fmtTime : Time → Bytes               -- Time.Format(RFC3339Nano)
  parseTime : Bytes → Option Time      -- time.Parse(RFC3339Nano, ·)
  timeOK : Time → Bool := fun _ => true  -- the instants the format can write: year 0..9999 in the anchor's own zone
  fmtFloat : Nat → Bytes               -- fmt %v of the float64 with these bits
  parseFloat : Bytes → Option Nat      -- strconv.ParseFloat(·, 64), as bits
  floatOK : Nat → Bool := fun _ => true  -- the bit patterns a literal holds: every number, and ONE NaN (c010ae5)

def isSpace (b : UInt8) : Bool := b == 32 || b == 9 || b == 10 || b == 13 || b == 11 || b == 12 || b == 0x85 || b == 0xA0
/-- ASCII white space as `strings.TrimSpace` sees it on ASCII-only ends (U+0085 and U+00A0 are multi-byte
    in UTF-8 and handled by the harness' generator: texts under test do not start or end with them). -/
def asciiSpace (b : UInt8) : Bool := b == 32 || b == 9 || b == 10 || b == 13 || b == 11 || b == 12
def trim (s : Bytes) : Bytes := ((s.dropWhile asciiSpace).reverse.dropWhile asciiSpace).reverse

/-- Position of the first occurrence of `pat` in `s`. -/
def indexOf (pat : Bytes) : Bytes → Option Nat
  | [] => if pat.isEmpty then some 0 else none
  | c :: cs => if pat.isPrefixOf (c :: cs) then some 0 else (indexOf pat cs).map (· + 1)

/-- Position of the last occurrence of `pat` in `s` (`strings.LastIndex`). -/
def lastIndexOf (pat : Bytes) : Bytes → Option Nat
  | [] => if pat.isEmpty then some 0 else none
  | c :: cs =>
    match lastIndexOf pat cs with
    | some i => some (i + 1)
    | none => if pat.isPrefixOf (c :: cs) then some 0 else none

/-! ### Nodes -/

def lt : UInt8 := 60
def gt : UInt8 := 62
def slash : UInt8 := 47
def underscore : UInt8 := 95
def dq : UInt8 := 34

def printNode (n : Node) : Bytes := n.ty ++ [lt] ++ n.id ++ [gt]

def containsAny (s : Bytes) (cs : List UInt8) : Bool := s.any cs.contains

/-- `node.NewType`. -/
def validType (t : Bytes) : Bool :=
  !containsAny t [32, 9, 10, 13] && t.head? == some slash && t.getLast? != some slash && !t.isEmpty &&
  !containsAny t [lt, gt]
/-- `node.NewID`. -/
def validID (i : Bytes) : Bool := !containsAny i [lt, gt] && !i.isEmpty

def parseNode (s : Bytes) : Option Node :=
  let raw := trim s
  if raw.length < 2 then none else
  match raw with
  | c :: _ =>
    if c == slash then
      match indexOf [lt] raw with
      | none => none
      | some idx =>
        let ty := raw.take idx
        if !validType ty then none else
        if raw.getLast? != some gt then none else
        let id := (raw.drop (idx + 1)).take (raw.length - 1 - (idx + 1))
        if !validID id then none else some ⟨ty, id⟩
    else if c == underscore then
      let id := raw.drop 2
      if !validID id then none else some ⟨[slash, underscore], id⟩
    else none
  | [] => none

/-! ### Predicates -/

def sepPred : Bytes := [dq, 64, 91]     -- "@[
def rb : UInt8 := 93                    -- ]

def printPred (L : Leaf) : Pred → Bytes
  | .imm i => L.quote i ++ [64, 91, rb]
  | .tmp i t => L.quote i ++ [64, 91] ++ L.fmtTime t ++ [rb]

def parsePred (L : Leaf) (s : Bytes) : Option Pred :=
  let raw := trim s
  if raw.isEmpty then none else
  if raw.head? != some dq then none else
  match lastIndexOf sepPred raw with
  | none => none
  | some idx =>
    if raw.getLast? != some rb then none else
    match L.unquote (raw.take (idx + 1)) with
    | none => none
    | some id =>
      let ta := (raw.drop (idx + 3)).take (raw.length - 1 - (idx + 3))
      if ta.isEmpty then some (.imm id) else
      let ta := if ta.length ≥ 2 && ta.head? == some dq && ta.getLast? == some dq then (ta.drop 1).take (ta.length - 2) else ta
      (L.parseTime ta).map (.tmp id)

/-! ### Literals -/

def sepLit : Bytes := [dq, 94, 94, 116, 121, 112, 101, 58]   -- "^^type:

/-- Decimal digits of a number (as `strconv` prints them). -/
def digits (n : Nat) : Bytes :=
  if h : n < 10 then [UInt8.ofNat (48 + n)] else digits (n / 10) ++ [UInt8.ofNat (48 + n % 10)]
termination_by n
decreasing_by omega

def fmtInt (i : Int) : Bytes := if i < 0 then 45 :: digits i.natAbs else digits i.toNat

def printLit (L : Leaf) : Lit → Bytes
  | .bool b => [dq] ++ (if b then trueBytes else falseBytes) ++ sepLit ++ [98, 111, 111, 108]
  | .int i => [dq] ++ fmtInt i ++ sepLit ++ [105, 110, 116, 54, 52]
  | .float b => [dq] ++ L.fmtFloat b ++ sepLit ++ [102, 108, 111, 97, 116, 54, 52]
  | .text t => [dq] ++ t ++ sepLit ++ [116, 101, 120, 116]
  | .blob bs => [dq, 91] ++ (List.intercalate [32] (bs.map fun x => digits x.toNat)) ++ [rb] ++ sepLit ++ [98, 108, 111, 98]

def isDigit (b : UInt8) : Bool := 48 ≤ b && b ≤ 57

def natOfDigits (ds : Bytes) : Nat := ds.foldl (fun acc d => acc * 10 + (d.toNat - 48)) 0

/-- `strconv.ParseInt(s, 10, 64)`. -/
def parseInt64 (s : Bytes) : Option Int :=
  let neg := s.head? == some 45
  let ds := if s.head? == some 45 || s.head? == some 43 then s.drop 1 else s
  if ds.isEmpty || !ds.all isDigit then none else
  let n := natOfDigits ds
  if neg then (if n ≤ 9223372036854775808 then some (-(n : Int)) else none)
  else (if n ≤ 9223372036854775807 then some (n : Int) else none)

/-- `strconv.ParseBool`. -/
def parseBoolText (s : Bytes) : Option Bool :=
  if s ∈ [[49], [116], [84], [84, 82, 85, 69], [116, 114, 117, 101], [84, 114, 117, 101]] then some true
  else if s ∈ [[48], [102], [70], [70, 65, 76, 83, 69], [102, 97, 108, 115, 101], [70, 97, 108, 115, 101]] then some false
  else none

/-- `strconv.ParseUint(s, 10, 8)`. -/
def parseByte (s : Bytes) : Option UInt8 :=
  if s.isEmpty || !s.all isDigit then none else
  let n := natOfDigits s
  if n ≤ 255 then some (UInt8.ofNat n) else none

def splitOn (sep : UInt8) (s : Bytes) : List Bytes :=
  s.foldr (fun c acc => if c == sep then [] :: acc else match acc with
    | [] => [[c]]
    | a :: rest => (c :: a) :: rest) [[]]

def parseLit (L : Leaf) (s : Bytes) : Option Lit :=
  let raw := trim s
  if raw.isEmpty then none else
  if raw.head? != some dq then none else
  match lastIndexOf sepLit raw with
  | none => none
  | some idx =>
    if idx < 1 then none else
    let v := (raw.take idx).drop 1
    let t := raw.drop (idx + sepLit.length)
    if t == [98, 111, 111, 108] then (parseBoolText v).map .bool
    else if t == [105, 110, 116, 54, 52] then (parseInt64 v).map .int
    else if t == [102, 108, 111, 97, 116, 54, 52] then (L.parseFloat v).map .float
    else if t == [116, 101, 120, 116] then some (.text v)
    else if t == [98, 108, 111, 98] then
      if v.length < 2 || v.head? != some 91 || v.getLast? != some rb then none else
      let values := (v.drop 1).take (v.length - 2)
      if values.isEmpty then some (.blob []) else
      ((splitOn 32 values).mapM parseByte).map .blob
    else none

/-! ### Objects and triples -/

/-- `boundedBuilder.Parse`: the default parse, then text and blob values longer than `max` are refused. -/
def parseLitBounded (L : Leaf) (max : Nat) (s : Bytes) : Option Lit :=
  match parseLit L s with
  | some (.text t) => if t.length > max then none else some (.text t)
  | some (.blob b) => if b.length > max then none else some (.blob b)
  | r => r

/-- `ParseObject` with the literal parser of the builder it is handed. -/
def parseObjectWith (pl : Bytes → Option Lit) (L : Leaf) (s : Bytes) : Option Obj :=
  match parseNode s with
  | some n => some (.node n)
  | none =>
    match pl s with
    | some l => some (.lit l)
    | none => (parsePred L s).map .pred

def parseObject (L : Leaf) (s : Bytes) : Option Obj := parseObjectWith (parseLit L) L s

def printObj (L : Leaf) : Obj → Bytes
  | .node n => printNode n
  | .pred p => printPred L p
  | .lit l => printLit L l

def tab : UInt8 := 9
def printTriple (L : Leaf) (t : Triple) : Bytes := printNode t.s ++ [tab] ++ printPred L t.p ++ [tab] ++ printObj L t.o

/-- Go regexp `\s`. -/
def reSpace (b : UInt8) : Bool := b == 32 || b == 9 || b == 10 || b == 13 || b == 12

/-- First match of `c \s+ (one of nexts)`: (start, end) positions like `Regexp.FindIndex`. -/
def findSplit (c : UInt8) (nexts : List UInt8) : Bytes → Nat → Option (Nat × Nat)
  | [], _ => none
  | x :: rest, pos =>
    if x == c then
      let ws := rest.takeWhile reSpace
      match rest.drop ws.length with
      | y :: _ =>
        if ws.length ≥ 1 && nexts.contains y then some (pos, pos + 1 + ws.length + 1)
        else findSplit c nexts rest (pos + 1)
      | [] => findSplit c nexts rest (pos + 1)
    else findSplit c nexts rest (pos + 1)

/-- Where the quote that closes a quoted ID stands: bytes are skipped one by one, a backslash with the byte after it. -/
def scanQuoted : Bytes → Nat
  | [] => 0
  | c :: rest =>
    if c == dq then 0
    else if c == 92 then
      (match rest with
       | [] => 1
       | _ :: r2 => 2 + scanQuoted r2)
    else 1 + scanQuoted rest

def parseTripleWith (pl : Bytes → Option Lit) (L : Leaf) (line : Bytes) : Option Triple :=
  let raw := trim line
  match findSplit gt [dq] raw 0 with
  | none => none
  | some (p0, p1) =>
    let pStart := p1 - 1
    -- past the quoted ID of the predicate (which may hold `] /`: %q leaves spaces as they are)
    let idEnd := pStart + 1 + scanQuoted (raw.drop (pStart + 1))
    match findSplit rb [slash, dq] (raw.drop idEnd) 0 with
    | none => none
    | some (o0, o1) =>
      let ss := raw.take (p0 + 1)
      let sp := (raw.drop pStart).take (idEnd - pStart + o0 + 1)
      let so := raw.drop (idEnd + o1 - 1)
      match parseNode ss, parsePred L sp, parseObjectWith pl L so with
      | some s, some p, some o => some ⟨s, p, o⟩
      | _, _, _ => none

def parseTriple (L : Leaf) (line : Bytes) : Option Triple := parseTripleWith (parseLit L) L line

/-! ### The line protocol -/

def splitLines (s : Bytes) : List Bytes := (splitOn 10 s).map fun l => match l.getLast? with
  | some 13 => l.dropLast
  | _ => l

/-- `ReadIntoGraph`: the triples of the lines before the first malformed one, their number, and whether
    it stopped on an error. Blank lines are skipped. -/
def readLines (L : Leaf) : List Bytes → List Triple × Nat × Bool
  | [] => ([], 0, false)
  | l :: ls =>
    if (trim l).isEmpty then readLines L ls else
    match parseTriple L l with
    | none => ([], 0, true)
    | some t => let (ts, n, e) := readLines L ls; (t :: ts, n + 1, e)

def writeLines (L : Leaf) (ts : List Triple) : Bytes := (ts.map fun t => printTriple L t ++ [10]).flatten

end BW.Model.Text
