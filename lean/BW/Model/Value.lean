/-
Values of the triple layer (`triple/node`, `triple/predicate`, `triple/literal`, `triple`) and the
byte strings their `UUID()` methods feed to SHA-1 (the *pre-images*).  `UUID(v) = SHA1(pre v)`; the
model never executes SHA-1 (assumption `H_sha1`, DESIGN.md §6): identity is the pre-image.
-/
import BW.Model.Store

namespace BW.Model

structure Node where
  ty : Bytes
  id : Bytes
  deriving DecidableEq, Repr

/-- An instant (unbounded nanoseconds since the Unix epoch) and a zone offset in seconds. -/
structure Time where
  nanos : Int
  off : Int := 0
  deriving DecidableEq, Repr

inductive Pred where
  | imm (id : Bytes)
  | tmp (id : Bytes) (t : Time)
  deriving DecidableEq, Repr

inductive Lit where
  | bool (b : Bool)
  | int (i : Int)            -- int64: −2^63 ≤ i < 2^63
  | float (bits : Nat)       -- IEEE-754 bits, < 2^64
  | text (s : Bytes)
  | blob (b : Bytes)
  deriving DecidableEq, Repr

inductive Obj where
  | node (n : Node)
  | pred (p : Pred)
  | lit (l : Lit)
  deriving DecidableEq, Repr

structure Triple where
  s : Node
  p : Pred
  o : Obj
  deriving DecidableEq, Repr

def Pred.id : Pred → Bytes
  | .imm i => i
  | .tmp i _ => i

def Pred.anchor : Pred → Option Time
  | .imm _ => none
  | .tmp _ t => some t

def ascii (s : String) : Bytes := s.toUTF8.toList

/-- "immutable", "true", "false" as bytes (literal lists so that the kernel can compute with them;
    the `values/uuid` correspondence hashes the model's pre-images and compares with Go's UUIDs). -/
def immutableBytes : Bytes := [105, 109, 109, 117, 116, 97, 98, 108, 101]
def trueBytes : Bytes := [116, 114, 117, 101]
def falseBytes : Bytes := [102, 97, 108, 115, 101]

/-- `uint64` → base-128 little-endian with continuation bits (`binary.PutUvarint`). Fuel 10 suffices
    for 64-bit values. -/
def uvarint : Nat → Nat → Bytes
  | 0, _ => []
  | f + 1, x => if x < 128 then [UInt8.ofNat x] else UInt8.ofNat (x % 128 + 128) :: uvarint f (x / 128)

/-- int64 → zig-zag → uvarint (`binary.PutVarint`). -/
def zigzag (x : Int) : Nat := if x ≥ 0 then (2 * x).toNat else (-2 * x - 1).toNat

def varint (x : Int) : Bytes := uvarint 10 (zigzag x)

/-- Reduce to the int64 range the way Go's wrapping arithmetic does. -/
def toInt64 (n : Int) : Int := (n + 9223372036854775808) % 18446744073709551616 - 9223372036854775808

def padTo (n : Nat) (b : Bytes) : Bytes := b ++ List.replicate (n - b.length) 0

def leBytes : Nat → Nat → Bytes
  | 0, _ => []
  | k + 1, x => UInt8.ofNat (x % 256) :: leBytes k (x / 256)

def preNode (n : Node) : Bytes := n.ty ++ n.id

def prePredPartial (p : Pred) : Bytes := p.id

/-- `Predicate.UUID`: id ++ "immutable", or id ++ a 16-byte buffer holding `PutVarint(UnixNano())`. -/
def prePred : Pred → Bytes
  | .imm i => i ++ immutableBytes
  | .tmp i t => i ++ padTo 16 (varint (toInt64 t.nanos))

/-- `Literal.UUID` payloads: no type tag. The int64 case writes the varint into an 8-byte buffer
    (`quirkIntBuf8 = true`: the Go code before the D03 fix panics when the varint needs 9–10 bytes);
    after the fix the buffer is as long as needed, at least 8. -/
def preLit (quirkIntBuf8 : Bool) : Lit → Option Bytes
  | .bool true => some trueBytes
  | .bool false => some falseBytes
  | .int i =>
    let v := varint i
    if quirkIntBuf8 && v.length > 8 then none else some (padTo 8 v)
  | .float bits => some (leBytes 8 bits)
  | .text s => some s
  | .blob b => some b

def preObj (q : Bool) : Obj → Option Bytes
  | .node n => some (preNode n)
  | .pred p => some (prePred p)
  | .lit l => preLit q l

/-- What the store sees of a triple (`none`: computing the UUID panics). -/
def Triple.view (q : Bool) (t : Triple) (id : Nat) (pstr str sstr ostr : Bytes) : Option TView :=
  match preObj q t.o with
  | none => none
  | some ko => some {
      id := id, ks := preNode t.s, pid := t.p.id, pnano := t.p.anchor.map (·.nanos), ko := ko,
      opred := match t.o with
        | .pred p => some (p.id, p.anchor.map (·.nanos))
        | _ => none,
      pstr := pstr, str := str, sstr := sstr, ostr := ostr }

/-! ### Value identity (specification side): injective encodings, independent of the UUID scheme -/

def natBytes (n : Nat) : Bytes := (toString n).toUTF8.toList ++ [58]
def intBytes (i : Int) : Bytes := (toString i).toUTF8.toList ++ [58]
def lp (b : Bytes) : Bytes := natBytes b.length ++ b

def idNode (n : Node) : Bytes := lp n.ty ++ lp n.id

def idLit : Lit → Bytes
  | .bool b => [98, if b then 1 else 0]
  | .int i => 105 :: intBytes i
  | .float bits => 102 :: natBytes bits
  | .text s => 116 :: lp s
  | .blob b => 120 :: lp b

def idPredFull : Pred → Bytes
  | .imm i => 73 :: lp i
  | .tmp i t => 84 :: lp i ++ intBytes t.nanos

def idObj : Obj → Bytes
  | .node n => 78 :: idNode n
  | .pred p => 80 :: idPredFull p
  | .lit l => 76 :: idLit l

/-- The specification's view of a triple: identity is "same kind and equal components, anchors as
    instants" — not the UUID pre-image. (The predicate instant is kept unwrapped by shifting it into
    the identifier part of the key.) -/
def Triple.viewSpec (t : Triple) (id : Nat) (pstr str sstr ostr : Bytes) : TView :=
  { id := id, ks := idNode t.s, pid := t.p.id, pnano := t.p.anchor.map (·.nanos), ko := idObj t.o,
    opred := match t.o with
      | .pred p => some (p.id, p.anchor.map (·.nanos))
      | _ => none,
    pstr := pstr, str := str, sstr := sstr, ostr := ostr }

end BW.Model
