/-
Model of the SELECT pipeline: `bql/planner/data_access.go` (tripleToRow, shouldIgnoreTriple,
simpleFetch), `bql/planner/planner.go` (processClause and its three strategies, projection, limit) and
the parts of `bql/table/table.go` they use, over the store model.

The input is the `semantic.Statement` the real parser produced (dumped field by field by the harness);
the text → Statement step is tied separately (C18 and the Statement dumps of the `parse/state` runs).
-/
import BW.Model.Store
import BW.Model.Value

namespace BW.Model

inductive Cell where
  | node (n : Node)
  | pred (p : Pred)
  | lit (l : Lit)
  | time (t : Time)
  | str (s : Bytes)
  | null
  deriving DecidableEq, Repr

/-- A row: binding name ↦ cell (a Go map; no key twice). -/
abbrev Row := List (Bytes × Cell)

def Row.get (r : Row) (k : Bytes) : Option Cell := (r.find? (·.1 == k)).map (·.2)
def Row.has (r : Row) (k : Bytes) : Bool := r.any (·.1 == k)
def Row.set (r : Row) (k : Bytes) (v : Cell) : Row :=
  if r.has k then r.map (fun p => if p.1 == k then (k, v) else p) else r ++ [(k, v)]

/-- `table.MergeRows([a, b])`: values of `a` win. -/
def Row.merge (a b : Row) : Row := a ++ b.filter (fun p => !a.has p.1)

structure Clause where
  optional : Bool := false
  s : Option Node := none
  sBinding : Bytes := []
  sAlias : Bytes := []
  sTypeAlias : Bytes := []
  sIDAlias : Bytes := []
  p : Option Pred := none
  pID : Bytes := []
  pBinding : Bytes := []
  pAlias : Bytes := []
  pIDAlias : Bytes := []
  pAnchorBinding : Bytes := []
  pAnchorAlias : Bytes := []
  pLower : Option Time := none
  pUpper : Option Time := none
  pLowerAlias : Bytes := []
  pUpperAlias : Bytes := []
  pTemporal : Bool := false
  o : Option Obj := none
  oBinding : Bytes := []
  oAlias : Bytes := []
  oID : Bytes := []
  oTypeAlias : Bytes := []
  oIDAlias : Bytes := []
  oAnchorBinding : Bytes := []
  oAnchorAlias : Bytes := []
  oLower : Option Time := none
  oUpper : Option Time := none
  oLowerAlias : Bytes := []
  oUpperAlias : Bytes := []
  oTemporal : Bool := false
  deriving Repr, DecidableEq

def dedup (l : List Bytes) : List Bytes := l.foldl (fun acc b => if acc.contains b then acc else acc ++ [b]) []

/-- `GraphClause.Bindings()`: the distinct non-empty binding names (as a set). -/
def Clause.bindings (c : Clause) : List Bytes :=
  dedup ([c.sBinding, c.sAlias, c.sTypeAlias, c.sIDAlias, c.pAlias, c.pAnchorBinding, c.pBinding, c.pLowerAlias,
    c.pUpperAlias, c.pIDAlias, c.pAnchorAlias, c.oBinding, c.oAlias, c.oTypeAlias, c.oIDAlias, c.oAnchorAlias,
    c.oAnchorBinding, c.oLowerAlias, c.oUpperAlias].filter (· ≠ []))

def Clause.hasAlias (c : Clause) : Bool :=
  c.sAlias ≠ [] || c.sTypeAlias ≠ [] || c.sIDAlias ≠ [] || c.pAlias ≠ [] || c.pAnchorAlias ≠ [] || c.pIDAlias ≠ [] ||
  c.pLowerAlias ≠ [] || c.pUpperAlias ≠ [] || c.oAlias ≠ [] || c.oAnchorAlias ≠ [] || c.oIDAlias ≠ [] ||
  c.oTypeAlias ≠ [] || c.oLowerAlias ≠ [] || c.oUpperAlias ≠ []

def Clause.specificity (c : Clause) : Nat :=
  (if c.s.isSome then 1 else 0) + (if c.p.isSome then 1 else 0) + (if c.o.isSome then 1 else 0)

inductive QErr where
  | appendTable | dotProduct | objectNotNodeNorPredicate | boundAliasNil | boundAliasMissing | sumNoRows
  | sumNotNumber | sumOverflow | sumOrderDependent | projectUnknown | lookup | missingGraph | other
  deriving DecidableEq, Repr

def objCell : Obj → Cell
  | .node n => .node n
  | .pred p => .pred p
  | .lit l => .lit l

/-- Outcome of `tripleToRow`: a row, "skip this triple", or an error that aborts the query. -/
inductive T2R where
  | row (r : Row)
  | skip
  | fail (e : QErr)

/-- `sameCell`: same kind and equal components, anchors as instants. -/
def predSameI (a b : Pred) : Bool := a.id == b.id && a.anchor.map (·.nanos) == b.anchor.map (·.nanos)

def sameCell : Cell → Cell → Bool
  | .time a, .time b => a.nanos == b.nanos
  | .pred a, .pred b => predSameI a b
  | a, b => a == b

/-- One binding assignment inside tripleToRow with the `validBinding` check: a binding name used twice
    in a clause must receive DeepEqual cells. -/
def bindCell (acc : Option Row) (k : Bytes) (c : Cell) : Option Row :=
  match acc with
  | none => none
  | some r =>
    if k = [] then some r else
    match r.get k with
    | none => some (r ++ [(k, c)])
    | some old => if sameCell old c then some (r.set k c) else none   -- `r[k] = c`: the last value stays

def anchorCell (optional : Bool) (p : Option Pred) : Option Cell :=
  match p with
  | some (.tmp _ t) => some (.time t)
  | _ => if optional then some .null else none   -- none: skippable error, the triple does not match

/-- `tripleToRow`. -/
def tripleToRow (t : Triple) (c : Clause) : T2R :=
  let r : Option Row := some []
  let r := bindCell r c.sBinding (.node t.s)
  let r := bindCell r c.sAlias (.node t.s)
  let r := bindCell r c.sTypeAlias (.str t.s.ty)
  let r := bindCell r c.sIDAlias (.str t.s.id)
  let r := bindCell r c.pBinding (.pred t.p)
  let r := bindCell r c.pAlias (.pred t.p)
  let r := bindCell r c.pIDAlias (.str t.p.id)
  match r with
  | none => .skip
  | some r =>
  -- anchor binding / AT alias of the predicate
  let pa := anchorCell c.optional (some t.p)
  if c.pAnchorBinding ≠ [] && pa.isNone then .skip else
  let r := if c.pAnchorBinding ≠ [] then bindCell (some r) c.pAnchorBinding (pa.getD .null) else some r
  match r with
  | none => .skip
  | some r =>
  if c.pAnchorAlias ≠ [] && pa.isNone then .skip else
  let r := if c.pAnchorAlias ≠ [] then bindCell (some r) c.pAnchorAlias (pa.getD .null) else some r
  let r := bindCell r c.oBinding (objCell t.o)
  let r := bindCell r c.oAlias (objCell t.o)
  match r with
  | none => .skip
  | some r =>
  -- TYPE alias of the object: nodes only
  let ot : Option Cell := match t.o with
    | .node n => some (.str n.ty)
    | _ => if c.optional then some .null else none
  if c.oTypeAlias ≠ [] && ot.isNone then .skip else
  let r := if c.oTypeAlias ≠ [] then bindCell (some r) c.oTypeAlias (ot.getD .null) else some r
  match r with
  | none => .skip
  | some r =>
  -- ID alias of the object: node id (validated unless it is named after the object itself), predicate id
  let r : Except QErr (Option Row) :=
    if c.oIDAlias = [] then .ok (some r) else
    match t.o with
    | .node n =>
      if c.oIDAlias == c.oBinding || c.oIDAlias == c.oAlias then .ok (some (r.set c.oIDAlias (.str n.id)))
      else .ok (bindCell (some r) c.oIDAlias (.str n.id))
    | .pred p => .ok (bindCell (some r) c.oIDAlias (.str p.id))
    | .lit _ => if c.optional then .ok (bindCell (some r) c.oIDAlias .null) else .ok none
  match r with
  | .error e => .fail e
  | .ok none => .skip
  | .ok (some r) =>
  let oa : Option Cell := match t.o with
    | .pred p => anchorCell c.optional (some p)
    | _ => if c.optional then some .null else none
  if c.oAnchorBinding ≠ [] && oa.isNone then .skip else
  let r := if c.oAnchorBinding ≠ [] then bindCell (some r) c.oAnchorBinding (oa.getD .null) else some r
  match r with
  | none => .skip
  | some r =>
  if c.oAnchorAlias ≠ [] && oa.isNone then .skip else
  let r := if c.oAnchorAlias ≠ [] then bindCell (some r) c.oAnchorAlias (oa.getD .null) else some r
  match r with
  | none => .skip
  | some r => .row r

def timeBefore (a b : Time) : Bool := a.nanos < b.nanos
def timeAfter (a b : Time) : Bool := a.nanos > b.nanos

def predIgnored (id : Bytes) (temporal : Bool) (anchorBinding : Bytes) (lower upper : Option Time) (p : Pred) : Bool :=
  if p.id ≠ id then true else
  if temporal && anchorBinding = [] then
    match p with
    | .imm _ => true
    | .tmp _ ta =>
      (match lower with | some l => timeAfter l ta | none => false) ||
      (match upper with | some u => timeBefore u ta | none => false)
  else false

/-- `shouldIgnoreTriple`. -/
def shouldIgnore (t : Triple) (c : Clause) : Bool :=
  (c.pID ≠ [] && predIgnored c.pID c.pTemporal c.pAnchorBinding c.pLower c.pUpper t.p) ||
  (c.oID ≠ [] && match t.o with
    | .pred p => predIgnored c.oID c.oTemporal c.oAnchorBinding c.oLower c.oUpper p
    | _ => false)

/-- `addTriples`: rows of the triples a driver call delivered. Rows without any binding are dropped
    by `Table.AddRow`. -/
def addTriples (ts : List Triple) (c : Clause) : Except QErr (List Row) :=
  ts.foldlM (fun acc t =>
    if shouldIgnore t c then pure acc else
    match tripleToRow t c with
    | .row r => pure (if r.isEmpty then acc else acc ++ [r])
    | .skip => pure acc
    | .fail e => .error e) []

/-- A queried graph: the stored triples with their structured form. -/
structure QGraph where
  g : Graph
  uni : Nat → Option Triple

def QGraph.triples (q : QGraph) (vs : List TView) : List Triple := vs.filterMap fun v => q.uni v.id

def predPQ (p : Pred) : PQ := { pid := p.id, pnano := p.anchor.map (·.nanos) }

/-- Global lookup options of the statement, as far as the model needs them. -/
structure QOpts where
  lower : Option Time := none
  upper : Option Time := none
  filter : Option FilterOpts := none

/-- `updateTimeBounds`: tighten the global window by the clause's predicate bounds. -/
def updateTimeBounds (lo : QOpts) (c : Clause) : QOpts :=
  { lo with
    lower := match c.pLower with
      | some l => (match lo.lower with | none => some l | some g => if timeAfter l g then some l else some g)
      | none => lo.lower
    upper := match c.pUpper with
      | some u => (match lo.upper with | none => some u | some g => if timeBefore u g then some u else some g)
      | none => lo.upper }

def toLookupOpts (lo : QOpts) (maxElements : Int) : LookupOpts :=
  { maxElements := maxElements, lower := lo.lower.map (·.nanos), upper := lo.upper.map (·.nanos), filter := lo.filter }

/-- `inTimeBounds`. -/
def inTimeBounds (p : Pred) (lo : QOpts) : Bool :=
  match p with
  | .imm _ => true
  | .tmp _ ta =>
    (match lo.lower with | some l => !timeBefore ta l | none => true) &&
    (match lo.upper with | some u => !timeAfter ta u | none => true)

/-- `simpleFetch`: the driver call selected by which of S, P, O are fixed, over every input graph. -/
def simpleFetch (F : Facts) (gs : List QGraph) (c : Clause) (lo : QOpts) (stmLimit : Int) : Except QErr (List Row) :=
  let lo := updateTimeBounds lo c
  let look (q : QGraph) (m : Method) (a : LArgs) (mx : Int) : Except QErr (List Triple) :=
    match q.g.lookup F m a (toLookupOpts lo mx) with
    | .ok vs => .ok (q.triples vs)
    | .error _ => .error .lookup
  match c.s, c.p, c.o with
  | some s, some p, some o =>
    match preObj false o with
    | none => .error .other
    | some ko =>
      let probe : TView := { ks := preNode s, pid := p.id, pnano := p.anchor.map (·.nanos), ko := ko }
      if !inTimeBounds p lo then .ok [] else
      gs.foldlM (fun acc q =>
        if q.g.exist probe then do
          let rows ← addTriples [⟨s, p, o⟩] c
          pure (acc ++ rows)
        else pure acc) []
  | s?, p?, o? =>
    match (match o? with | some o => (preObj false o).map some | none => some none) with
    | none => .error .other
    | some ko? =>
    let a : LArgs := { s := (s?.map preNode).getD [], p := p?.map predPQ, o := ko?.getD [] }
    let m : Method := match s?, p?, o? with
      | some _, some _, none => .objects          -- rebuilt as (s, p, o') triples below
      | some _, none, some _ => .predsForSO
      | none, some _, some _ => .subjects
      | some _, none, none => .triplesForS
      | none, some _, none => .triplesForP
      | none, none, some _ => .triplesForO
      | _, _, _ => .triples
    gs.foldlM (fun acc q => do
      let ts ← look q m a (if m == .triples && stmLimit > 0 then stmLimit else 0)
      -- Objects / Subjects / Predicates deliver one component; the planner rebuilds the triple from
      -- the fixed ones. The stored triple carries the same components (up to UUID identity).
      let ts := if m == .objects || m == .predsForSO || m == .subjects then
          ts.map fun t => { s := s?.getD t.s, p := p?.getD t.p, o := o?.getD t.o : Triple }
        else ts
      let rows ← addTriples ts c
      pure (acc ++ rows)) []

/-- The working table of the query plan. -/
structure Tbl where
  bindings : List Bytes := []     -- as a set
  rows : List Row := []

def Tbl.hasBinding (t : Tbl) (b : Bytes) : Bool := t.bindings.contains b
def Tbl.addBindings (t : Tbl) (bs : List Bytes) : Tbl := { t with bindings := dedup (t.bindings ++ bs) }

def sameSet (a b : List Bytes) : Bool := a.all b.contains && b.all a.contains
def disjointSet (a b : List Bytes) : Bool := a.all fun x => !b.contains x

/-- `Table.AppendTable`. -/
def Tbl.append (t : Tbl) (bs : List Bytes) (rows : List Row) : Except QErr Tbl :=
  if !t.bindings.isEmpty && !sameSet t.bindings bs then .error .appendTable
  else .ok { bindings := if t.bindings.isEmpty then bs else t.bindings, rows := t.rows ++ rows }

/-- `Table.DotProduct`. -/
def Tbl.dot (t : Tbl) (bs : List Bytes) (rows : List Row) : Except QErr Tbl :=
  if !disjointSet t.bindings bs then .error .dotProduct
  else .ok { bindings := dedup (t.bindings ++ bs), rows := t.rows.flatMap fun r1 => rows.map fun r2 => r1.merge r2 }

/-- `Table.LeftOptionalJoin` as reachable from the planner (bindings disjoint or equal). -/
def Tbl.leftOptional (t : Tbl) (bs : List Bytes) (rows : List Row) : Except QErr Tbl :=
  if sameSet t.bindings bs || bs.isEmpty then .ok t
  else if disjointSet t.bindings bs && rows.isEmpty then
    .ok { bindings := dedup (t.bindings ++ bs),
          rows := t.rows.map fun r => r.merge ((bs.filter (fun k => !r.has k)).map fun k => (k, Cell.null)) }
  else t.dot bs rows

def boundValue (r : Row) (bs : List Bytes) : Option Cell :=
  match (bs.filter (· ≠ [])).filterMap r.get with
  | [c] => some c
  | [c, d] => if sameCell c d then some c else none
  | _ => none

/-- The literal `cellToObject` builds from a string cell never parses (type "string" is unknown). -/
def cellToObj : Cell → Option Obj
  | .node n => some (.node n)
  | .pred p => some (.pred p)
  | .lit l => some (.lit l)
  | _ => none

/-- `updateTimeBoundsForRow` for bound aliases (`"p"@[?lo,?hi]`): one alias. An alias that is not in
    the row, or whose value is not a time, is an error. -/
def boundStep (r : Row) (lo : QOpts) (alias : Bytes) (isLower : Bool) : Except QErr QOpts :=
  if alias = [] then .ok lo else
  match r.get alias with
  | none => .error .boundAliasMissing
  | some (.time t) =>
    if isLower then
      .ok { lo with lower := match lo.lower with | none => some t | some g => if timeAfter t g then some t else some g }
    else
      .ok { lo with upper := match lo.upper with | none => some t | some g => if timeBefore t g then some t else some g }
  | some _ => .error .boundAliasNil

def boundsForRow (lo : QOpts) (c : Clause) (r : Row) : Except QErr QOpts :=
  match boundStep r (updateTimeBounds lo c) c.pLowerAlias true with
  | .error e => .error e
  | .ok lo1 =>
    match boundStep r lo1 c.pUpperAlias false with
    | .error e => .error e
    | .ok lo2 => .ok (updateTimeBounds lo2 c)

/-- `compatibleRows`. -/
def compatibleRows (r nr : Row) : Bool := nr.all fun (k, v) => match r.get k with | some ov => sameCell ov v | none => true

/-- First half of `addSpecifiedData`: fix the clause's open positions from the row's values.
    The five steps, in the order of the Go code: subject from its binding/alias; predicate from the
    anchor binding of `"id"@[?t]`; predicate from its binding/alias (then the row's bounds); object
    from the anchor binding; object from its binding/alias (then the row's bounds again). -/
def spS (r : Row) (c : Clause) : Clause :=
  if c.s.isNone then
    match boundValue r [c.sBinding, c.sAlias] with
    | some (.node n) => { c with s := some n }
    | _ => c
  else c

def spPA (r : Row) (c : Clause) : Clause :=
  if c.p.isNone && c.pID ≠ [] && c.pAnchorBinding ≠ [] then
    match r.get c.pAnchorBinding with
    | some (.time t) => { c with p := some (.tmp c.pID t) }
    | _ => c
  else c

def spP (r : Row) (c : Clause) : Clause :=
  match boundValue r [c.pBinding, c.pAlias] with
  | some (.pred p) => { c with p := some p }
  | _ => c

def spOA (r : Row) (c : Clause) : Clause :=
  if c.o.isNone && c.oID ≠ [] && c.oAnchorBinding ≠ [] then
    match r.get c.oAnchorBinding with
    | some (.time t) => { c with o := some (.pred (.tmp c.oID t)) }
    | _ => c
  else c

def spO (r : Row) (c : Clause) : Clause :=
  match (boundValue r [c.oBinding, c.oAlias]).bind cellToObj with
  | some o => { c with o := some o }
  | none => c

def specialise (r : Row) (c : Clause) (lo : QOpts) : Except QErr (Clause × QOpts) :=
  let c2 := spPA r (spS r c)
  let step3 : Except QErr (Clause × QOpts) :=
    if c2.p.isNone then
      match boundsForRow lo (spP r c2) r with
      | .ok lo' => .ok (spP r c2, lo')
      | .error e => .error e
    else .ok (c2, lo)
  match step3 with
  | .error e => .error e
  | .ok (c3, lo3) =>
    let c4 := spOA r c3
    if c4.o.isNone then
      match boundsForRow lo3 (spO r c4) r with
      | .ok lo' => .ok (spO r c4, lo')
      | .error e => .error e
    else .ok (c4, lo3)

/-- An object predicate bounded by bindings (`?s ?p "id"@[?lo,?hi]`) takes the bounds of its interval from the
    row (1eb6e97; the pinned tree never read them). -/
def objBound (r : Row) (alias : Bytes) (own : Option Time) : Except QErr (Option Time) :=
  if alias = [] then .ok own else
  match r.get alias with
  | none => .error .boundAliasMissing
  | some (.time t) => .ok (some t)
  | some _ => .error .boundAliasNil

def objBoundsForRow (r : Row) (c : Clause) : Except QErr Clause :=
  match objBound r c.oLowerAlias c.oLower with
  | .error e => .error e
  | .ok lo =>
    match objBound r c.oUpperAlias c.oUpper with
    | .error e => .error e
    | .ok hi => .ok { c with oLower := lo, oUpper := hi }

/-- `addSpecifiedData`, first half, with the object's interval. -/
def specialiseO (r : Row) (c : Clause) (lo : QOpts) : Except QErr (Clause × QOpts) :=
  match specialise r c lo with
  | .error e => .error e
  | .ok (c', lo') =>
    match objBoundsForRow r c' with
    | .error e => .error e
    | .ok c'' => .ok (c'', lo')

/-- Second half: join the row with the fetched rows that agree with it; an OPTIONAL clause without
    such rows keeps the row with its new bindings unset. -/
def joinRow (r : Row) (optional : Bool) (newBindings : List Bytes) (fetched : List Row) : List Row :=
  let rows := fetched.filter (compatibleRows r)
  if rows.isEmpty && optional then
    [r.merge ((newBindings.filter (fun k => !r.has k)).map fun k => (k, Cell.null))]
  else rows.map fun nr => r.merge nr

/-- `addSpecifiedData`: specialise the clause with one row and fetch. Returns the rows that replace it. -/
def Clause.extractsNothing (c : Clause) : Bool :=
  c.sBinding = [] && c.sAlias = [] && c.sTypeAlias = [] && c.sIDAlias = [] && c.pBinding = [] && c.pAlias = [] &&
  c.pIDAlias = [] && c.pAnchorBinding = [] && c.pAnchorAlias = [] && c.oBinding = [] && c.oAlias = [] &&
  c.oTypeAlias = [] && c.oIDAlias = [] && c.oAnchorBinding = [] && c.oAnchorAlias = []

def addSpecifiedData (F : Facts) (gs : List QGraph) (r : Row) (c : Clause) (lo : QOpts) (stmLimit : Int) :
    Except QErr (List Row) := do
  let (c', lo') ← specialiseO r c lo
  if c'.extractsNothing then
    -- constants and row-bounded predicates only: the clause has to hold for the row (probe)
    let rows ← simpleFetch F gs { c' with sAlias := [63, 95, 95, 101, 120, 105, 115, 116, 115] } lo' 0
    pure (if !rows.isEmpty || c.optional then [r] else [])
  else
  let rows ← simpleFetch F gs c' lo' stmLimit
  pure (joinRow r c.optional c'.bindings rows)

/-- `specifyClauseWithTable`: every row is replaced by its specialised fetches. -/
def specifyAll (F : Facts) (gs : List QGraph) (c : Clause) (lo : QOpts) (stmLimit : Int) : List Row → Except QErr (List Row)
  | [] => .ok []
  | r :: rs =>
    match addSpecifiedData F gs r c lo stmLimit with
    | .error e => .error e
    | .ok a =>
      match specifyAll F gs c lo stmLimit rs with
      | .error e => .error e
      | .ok b => .ok (a ++ b)

/-- `processClause`: returns the new table and whether the pattern became unresolvable. -/
def processClause (F : Facts) (gs : List QGraph) (tbl : Tbl) (c : Clause) (lo : QOpts) (stmLimit : Int) :
    Except QErr (Tbl × Bool) :=
  if c.specificity == 3 && !c.hasAlias then
    if c.optional then .ok (tbl, false) else
    if !(match c.p with | some p => inTimeBounds p (updateTimeBounds lo c) | none => true) then .ok (tbl, true) else
    let exists_ := match c.s, c.p, c.o with
      | some s, some p, some o =>
        (match preObj false o with
         | some ko => gs.any fun q => q.g.exist { ks := preNode s, pid := p.id, pnano := p.anchor.map (·.nanos), ko := ko }
         | none => false)
      | _, _, _ => false
    .ok (tbl, !exists_)
  else if c.bindings.isEmpty then
    -- a clause that binds nothing is an existence test (probe with a synthetic alias)
    if c.optional then .ok (tbl, false) else do
    let rows ← simpleFetch F gs { c with sAlias := [63, 95, 95, 101, 120, 105, 115, 116, 115] } lo 0
    pure (tbl, rows.isEmpty)
  else
    let existing := c.bindings.filter tbl.hasBinding
    if existing.isEmpty then do
      let rows ← simpleFetch F gs c lo stmLimit
      if !tbl.bindings.isEmpty then
        if c.optional then do pure (← tbl.leftOptional c.bindings rows, false)
        else do pure (← tbl.dot c.bindings rows, false)
      else do pure (← tbl.append c.bindings rows, false)
    else do
      -- specifyClauseWithTable: every row is replaced by its specialised fetches
      let rows ← specifyAll F gs c lo stmLimit tbl.rows
      let t : Tbl := { bindings := tbl.bindings, rows := rows }
      pure (if tbl.rows.isEmpty then t else t.addBindings c.bindings, false)

/-- `processGraphPattern`. -/
def processPattern (F : Facts) (gs : List QGraph) (cs : List Clause) (lo : QOpts) (stmLimit : Int)
    (filterFor : Clause → Option FilterOpts) : Except QErr Tbl :=
  let rec go (tbl : Tbl) : List Clause → Except QErr Tbl
    | [] => .ok tbl
    | c :: rest => do
      let (t, unresolvable) ← processClause F gs tbl c { lo with filter := filterFor c } stmLimit
      if unresolvable then pure { t with rows := [] } else go t rest
  go {} cs

/-! ### Projection, LIMIT and the final table -/

inductive AggOp | none | count | sum
  deriving DecidableEq, Repr

structure Proj where
  binding : Bytes
  alias : Bytes := []
  op : AggOp := .none
  distinct : Bool := false
  deriving Repr

def Proj.out (p : Proj) : Bytes := if p.alias ≠ [] then p.alias else p.binding

structure Stmt where
  graphs : List Bytes := []
  clauses : List Clause := []
  projs : List Proj := []
  groupBy : List Bytes := []
  orderBy : List (Bytes × Bool) := []
  hasHaving : Bool := false
  limit : Option Int := none
  lower : Option Time := none
  upper : Option Time := none
  filters : List (Nat × Bytes) := []   -- (operation, binding)

def filterOpOf : Nat → FilterOp
  | 1 => .latest
  | 2 => .isImmutable
  | 3 => .isTemporal
  | _ => .unknown

/-- `organizeFilterOptionsByClause`: every FILTER goes to the clauses that hold its binding, as a storage-level
    filter on the position the binding occupies (predicate before object); a binding no clause holds, a second
    filter on one clause and a binding in a position no filter applies to are errors. -/
def organizeFilters (filters : List (Nat × Bytes)) (cs : List Clause) : Except QErr (List (Clause × FilterOpts)) :=
  filters.foldlM (fun acc f =>
    let holders := cs.filter fun c => c.bindings.contains f.2
    if holders.isEmpty || filterOpOf f.1 == .unknown then .error .other else
    -- (the engine keys the filters by clause pointer: two clauses written identically are two holders of this
    -- filter, not a clause with two filters; the model keys by value)
    holders.foldlM (fun out c =>
      if acc.any (fun p => p.1 == c) then .error .other
      else if out.any (fun p => p.1 == c) then .ok out
      else if f.2 ≠ [] && (c.pBinding == f.2 || c.pAlias == f.2) then .ok (out ++ [(c, ⟨filterOpOf f.1, .predicate⟩)])
      else if f.2 ≠ [] && (c.oBinding == f.2 || c.oAlias == f.2) then .ok (out ++ [(c, ⟨filterOpOf f.1, .object⟩)])
      else .error .other) acc) []

def filterForOf (fs : List (Clause × FilterOpts)) (c : Clause) : Option FilterOpts := (fs.find? (·.1 == c)).map (·.2)

def Stmt.outputBindings (st : Stmt) : List Bytes := (st.projs.map Proj.out).filter (· ≠ [])

/-- One alias of the plain projection: the binding is read from the row as the pattern produced it (`r`), the
    alias is written into the row under construction; a missing binding leaves a nil cell (a missing key). -/
def projStep (r : Row) (out : Row) (p : Proj) : Row :=
  match r.get p.binding with
  | some c => out.set p.alias c
  | none => out.filter fun kv => kv.1 != p.alias

/-- One row of the plain projection: every value is read before any alias is written (1cfe61b). -/
def projectRow (ps : List Proj) (r : Row) : Row := ps.foldl (projStep r) r

/-- Projection without GROUP BY: the aliases are written, columns become the output bindings. -/
def projectPlain (st : Stmt) (t : Tbl) : Except QErr Tbl :=
  let rows := t.rows.map (projectRow st.projs)
  let t : Tbl := { bindings := dedup (t.bindings ++ st.outputBindings), rows := rows }
  if t.rows.isEmpty || t.bindings.isEmpty then .ok t
  else .ok { t with bindings := dedup st.outputBindings }

/-- `Table.Limit`. -/
def limitRows (n : Int) (rows : List Row) : List Row := if (rows.length : Int) > n then rows.take n.toNat else rows

/-- `stmLimit` pushed into the driver for single-clause statements without GROUP BY / HAVING. -/
def Clause.keepsEveryTriple (c : Clause) : Bool :=
  c.s.isNone && c.p.isNone && c.o.isNone && c.pID = [] && c.oID = [] && !c.hasAlias &&
  c.pAnchorBinding = [] && c.oAnchorBinding = [] &&
  c.sBinding ≠ c.pBinding && c.sBinding ≠ c.oBinding && c.pBinding ≠ c.oBinding

def Stmt.pushedLimit (st : Stmt) : Int :=
  match st.clauses with
  | [c] => if st.groupBy.isEmpty && !st.hasHaving && st.orderBy.isEmpty && c.keepsEveryTriple then st.limit.getD 0 else 0
  | _ => 0

end BW.Model
