/-
Model of the statements that change a store: `createPlan`, `dropPlan`, `insertPlan`, `deletePlan`,
`constructPlan` (bql/planner/planner.go), `update` (the fan-out of one batch to every target graph),
`Statement.Init` (graph names are resolved before a CONSTRUCT / DECONSTRUCT runs) and `Triple.Reify`
(triple/triple.go).

The store is the *contract* of a storage driver as C01 establishes it for the in-memory driver: a map
from names to sets of triples (by value: anchors as instants).  The WHERE pattern of CONSTRUCT is
evaluated by the reference semantics (`BW.Spec.solutionsO`: `solutions` with object intervals bounded by bindings); blank nodes are drawn from a counter
(`node.NewBlankNode` draws random UUIDs: assumed never to repeat nor to hit an existing node).
-/
import BW.Spec.Query

namespace BW.Model.Stm
open BW.Model BW.Spec

/-- Same triple as a value. -/
def tripleSame (a b : Triple) : Bool := a.s == b.s && predSame a.p b.p && objSame a.o b.o

abbrev VGraph := List Triple

def VGraph.has (g : VGraph) (t : Triple) : Bool := g.any (tripleSame t)
def VGraph.add (g : VGraph) (t : Triple) : VGraph := if g.has t then g else g ++ [t]
def VGraph.rem (g : VGraph) (t : Triple) : VGraph := g.filter fun x => !tripleSame t x
def VGraph.addAll (g : VGraph) (ts : List Triple) : VGraph := ts.foldl VGraph.add g
def VGraph.remAll (g : VGraph) (ts : List Triple) : VGraph := ts.foldl VGraph.rem g

structure VStore where
  graphs : List (Bytes × VGraph) := []
  nextBlank : Nat := 0

def VStore.get (s : VStore) (n : Bytes) : Option VGraph := (s.graphs.find? (·.1 == n)).map (·.2)
def VStore.exists (s : VStore) (n : Bytes) : Bool := s.graphs.any (·.1 == n)
def VStore.update (s : VStore) (n : Bytes) (f : VGraph → VGraph) : VStore :=
  { s with graphs := s.graphs.map fun p => if p.1 == n then (p.1, f p.2) else p }

/-- A predicate-object pair of a CONSTRUCT template. -/
structure POPair where
  p : Option Pred := none
  pID : Bytes := []
  pBinding : Bytes := []
  pAnchorBinding : Bytes := []
  pTemporal : Bool := false
  o : Option Obj := none
  oID : Bytes := []
  oBinding : Bytes := []
  oAnchorBinding : Bytes := []
  oTemporal : Bool := false

structure CClause where
  s : Option Node := none
  sBinding : Bytes := []
  pairs : List POPair := []

inductive Kind where
  | query | insert | delete | create | drop | construct | deconstruct | show
  deriving DecidableEq, Repr

structure DStmt where
  kind : Kind
  graphNames : List Bytes := []     -- CREATE / DROP
  inputs : List Bytes := []         -- FROM (and the targets of DELETE)
  outputs : List Bytes := []        -- INTO / IN
  data : List Triple := []
  ccs : List CClause := []
  outBindings : List Bytes := []    -- the bindings the template mentions: the columns of the WHERE table
  clauses : List Clause := []
  lower : Option Time := none
  upper : Option Time := none
  /-- HAVING of a CONSTRUCT / DECONSTRUCT: does a solution of the WHERE pattern pass (`none`: the evaluation
      fails, and with it the statement). Without HAVING every solution passes. -/
  keep : Row → Option Bool := fun _ => some true

inductive Outcome where
  | ok
  | rejected        -- before execution started: nothing was written
  | failed          -- an error was reported after some targets may have been written
  deriving DecidableEq, Repr

/-! ### CREATE / DROP: every name is tried; an error on one does not stop the others -/

def execCreate (st : VStore) (names : List Bytes) : VStore × Outcome :=
  names.foldl (fun (acc : VStore × Outcome) n =>
    if acc.1.exists n then (acc.1, .failed) else ({ acc.1 with graphs := acc.1.graphs ++ [(n, [])] }, acc.2)) (st, .ok)

def execDrop (st : VStore) (names : List Bytes) : VStore × Outcome :=
  names.foldl (fun (acc : VStore × Outcome) n =>
    if acc.1.exists n then ({ acc.1 with graphs := acc.1.graphs.filter (·.1 != n) }, acc.2) else (acc.1, .failed)) (st, .ok)

/-! ### `update`: one batch to every target graph -/

def updateAll (st : VStore) (targets : List Bytes) (f : VGraph → VGraph) : VStore × Outcome :=
  targets.foldl (fun (acc : VStore × Outcome) n =>
    if acc.1.exists n then (acc.1.update n f, acc.2) else (acc.1, .failed)) (st, .ok)

/-! ### Template instantiation (`processConstructClause`, `processPredicateObjectPair`, `cellToObject`) -/

inductive TErr where
  | missesBinding | needsNode | needsPredicate | needsTime | emptyCell | stringCell | nilComponent | having
  deriving DecidableEq, Repr

def cellToObject : Cell → Except TErr Obj
  | .node n => .ok (.node n)
  | .pred p => .ok (.pred p)
  | .lit l => .ok (.lit l)
  | .str _ => .error .stringCell      -- `"…"^^type:string` is not a literal type
  | .time _ => .error .emptyCell
  | .null => .error .emptyCell

/-- `hasB` = the table has the binding as a column. -/
def instPred (hasB : Bytes → Bool) (r : Row) (pp : POPair) : Except TErr (Option Pred) :=
  match pp.p with
  | some p => .ok (some p)
  | none =>
    if hasB pp.pBinding then
      match r.get pp.pBinding with
      | none => .error .missesBinding
      | some (.pred p) => .ok (some p)
      | some _ => .error .needsPredicate
    else if pp.pTemporal && pp.pAnchorBinding ≠ [] then
      match r.get pp.pAnchorBinding with
      | none => .error .missesBinding
      | some (.time t) => .ok (some (.tmp pp.pID t))
      | some _ => .error .needsTime
    else .ok none

def instObj (hasB : Bytes → Bool) (r : Row) (pp : POPair) : Except TErr (Option Obj) :=
  match pp.o with
  | some o => .ok (some o)
  | none =>
    if hasB pp.oBinding then
      match r.get pp.oBinding with
      | none => .error .missesBinding
      | some c => (cellToObject c).map some
    else if pp.oTemporal && pp.oAnchorBinding ≠ [] then
      match r.get pp.oAnchorBinding with
      | none => .error .missesBinding
      | some (.time t) => .ok (some (.pred (.tmp pp.oID t)))
      | some _ => .error .needsTime
    else .ok none

def instSubject (hasB : Bytes → Bool) (r : Row) (cc : CClause) : Except TErr (Option Node) :=
  match cc.s with
  | some n => .ok (some n)
  | none =>
    if hasB cc.sBinding then
      match r.get cc.sBinding with
      | none => .error .missesBinding
      | some (.node n) => .ok (some n)
      | some _ => .error .needsNode
    else .ok none

def mkTriple (s : Option Node) (p : Option Pred) (o : Option Obj) : Except TErr Triple :=
  match s, p, o with
  | some s, some p, some o => .ok ⟨s, p, o⟩
  | _, _, _ => .error .nilComponent

/-- The blank node of the n-th reification. -/
def blankNode (n : Nat) : Node := ⟨[47, 95], 35 :: List.replicate n 49⟩     -- /_<#11…1>, n ones

/-- The predicate of a reification triple: same kind (and anchor) as the reified predicate. -/
def reifPred (id : Bytes) : Pred → Pred
  | .imm _ => .imm id
  | .tmp _ t => .tmp id t

def subjectId : Bytes := [95, 115, 117, 98, 106, 101, 99, 116]             -- _subject
def predicateId : Bytes := [95, 112, 114, 101, 100, 105, 99, 97, 116, 101] -- _predicate
def objectId : Bytes := [95, 111, 98, 106, 101, 99, 116]                   -- _object

/-- `Triple.Reify` without the original triple (the planner writes `rts[1:]`). -/
def reify (b : Node) (t : Triple) : List Triple :=
  [⟨b, reifPred subjectId t.p, .node t.s⟩, ⟨b, reifPred predicateId t.p, .pred t.p⟩, ⟨b, reifPred objectId t.p, t.o⟩]

/-- A further pair of a ';' clause: a fact about the blank node. -/
def instExtra (hasB : Bytes → Bool) (r : Row) (blank : Node) (pp : POPair) : Except TErr Triple := do
  let p ← instPred hasB r pp
  let o ← instObj hasB r pp
  mkTriple (some blank) p o

/-- The triples one template clause yields for one row; `blank` is the blank node available to it. -/
def instClause (hasB : Bytes → Bool) (cc : CClause) (blank : Node) (r : Row) : Except TErr (List Triple × Bool) := do
  match cc.pairs with
  | [] => .error .nilComponent
  | first :: rest =>
    let s ← instSubject hasB r cc
    let p ← instPred hasB r first
    let o ← instObj hasB r first
    let t ← mkTriple s p o
    if rest.isEmpty then pure ([t], false) else
    let extras ← rest.mapM (instExtra hasB r blank)
    pure (reify blank t ++ extras, true)

/-- All the triples of a template over the rows: clause by clause, row by row; every reification
    takes the next blank node. -/
def instAll (hasB : Bytes → Bool) (ccs : List CClause) (rows : List Row) (next : Nat) : Except TErr (List Triple × Nat) :=
  (ccs.flatMap fun cc => rows.map fun r => (cc, r)).foldlM (fun (acc : List Triple × Nat) (cr : CClause × Row) => do
    let (ts, used) ← instClause hasB cr.1 (blankNode acc.2) cr.2
    pure (acc.1 ++ ts, if used then acc.2 + 1 else acc.2)) ([], next)

/-- The solutions of the WHERE pattern over the FROM graphs. -/
def solutionRows (st : VStore) (d : DStmt) : List Row :=
  let scan := d.inputs.flatMap fun n => (st.get n).getD []
  solutionsO scan (d.lower.map (·.nanos)) (d.upper.map (·.nanos)) d.clauses

/-- The solutions HAVING keeps (it sees the whole solution, not only the bindings of the template). -/
def keptRows (d : DStmt) : List Row → Except TErr (List Row)
  | [] => .ok []
  | r :: rest =>
    match d.keep r with
    | none => .error .having
    | some b => (keptRows d rest).map fun rs => if b then r :: rs else rs

/-- The rows a CONSTRUCT template is instantiated on: the kept solutions, projected onto the template's bindings. -/
def whereRows (st : VStore) (d : DStmt) : Except TErr (List Row) :=
  (keptRows d (solutionRows st d)).map fun rows => rows.map fun r =>
    d.outBindings.foldl (fun out k => match r.get k with | some c => out ++ [(k, c)] | none => out) []

/-- Executing a statement. -/
def exec (st : VStore) (d : DStmt) : VStore × Outcome :=
  match d.kind with
  | .create => execCreate st d.graphNames
  | .drop => execDrop st d.graphNames
  | .insert => updateAll st d.outputs (·.addAll d.data)
  | .delete => updateAll st d.inputs (·.remAll d.data)
  | .construct | .deconstruct =>
    -- Statement.Init: every graph named anywhere in the statement must exist
    if !(d.graphNames ++ d.inputs ++ d.outputs).all st.exists then (st, .rejected) else
    match (whereRows st d).bind fun rows => instAll (fun b => d.outBindings.contains b) d.ccs rows st.nextBlank with
    | .error _ => (st, .failed)      -- the real engine may have written some of the triples by then
    | .ok (ts, next) =>
      let st := { st with nextBlank := next }
      if d.kind == .construct then updateAll st d.outputs (·.addAll ts) else updateAll st d.outputs (·.remAll ts)
  | .query | .show => (st, .ok)

end BW.Model.Stm
