/-
Goroutine life-cycles of the engine as a small-step model (C08, C20): a producer goroutine sends a
finite number of items over a channel of some capacity and closes it; a consumer goroutine receives.
The consumer may lose interest before the end (a parser that rejects its input, a row builder that
hits an error) and the producer may give up before the end (a template error in CONSTRUCT); what the
code does *then* decides whether a goroutine is left behind:

  * `drains`       — a consumer that stops early keeps receiving until the channel is closed
                     (`defer llk.drain()` in Parser.Parse, `defer drainChannel(ts)` in addTriples);
  * `closesOnAbort`— a producer that gives up still closes the channel (the `finish` path of
                     constructPlan.Execute; `defer close(ch)` in every lookup of the memory driver).

Sites: lexer goroutine → LLk/Parser; driver lookup → simpleFetch relay; relay → addTriples;
constructPlan main loop → bulk writer.  The two flags are read off the source by the `concfacts`
translator (BW/Generated/ConcFacts.lean).
-/
namespace BW.Model.Conc

structure Policy where
  drains : Bool
  closesOnAbort : Bool
  deriving DecidableEq, Repr

structure PC where
  toSend : Nat            -- items the producer still has to send
  buf : Nat               -- items sitting in the channel
  cap : Nat               -- capacity (0 = unbuffered: send and receive meet)
  closed : Bool           -- the producer closed the channel and ended
  gone : Bool             -- the producer ended WITHOUT closing the channel
  want : Nat              -- items the consumer still wants for its own purpose
  done : Bool             -- the consumer ended
  deriving DecidableEq, Repr

def PC.prodEnded (s : PC) : Bool := s.closed || s.gone
/-- The consumer is at a receive: it still wants items, or it is draining. -/
def PC.receiving (p : Policy) (s : PC) : Bool := !s.done && (s.want > 0 || p.drains)

def init (n cap want : Nat) : PC := { toSend := n, buf := 0, cap := cap, closed := false, gone := false, want := want, done := false }

/-- Both goroutines have ended. -/
def PC.final (s : PC) : Bool := s.prodEnded && s.done
/-- A goroutine is left behind for good: nothing can move and somebody has not ended. -/
def PC.takes (s : PC) : PC := { s with want := s.want - 1 }

/-- Steps in which a goroutine communicates, closes or ends normally. -/
def commSteps (p : Policy) (s : PC) : List PC :=
  -- buffered send
  (if !s.prodEnded && s.toSend > 0 && s.buf < s.cap then [{ s with toSend := s.toSend - 1, buf := s.buf + 1 }] else []) ++
  -- unbuffered send meets a receive
  (if !s.prodEnded && s.toSend > 0 && s.cap = 0 && s.receiving p then [{ s.takes with toSend := s.toSend - 1 }] else []) ++
  -- the producer has sent everything: close
  (if !s.prodEnded && s.toSend = 0 then [{ s with closed := true }] else []) ++
  -- receive from the buffer
  (if s.receiving p && s.buf > 0 then [{ s.takes with buf := s.buf - 1 }] else []) ++
  -- the consumer ends: it wants nothing more and does not drain, or it sees the closed, empty channel
  (if !s.done && ((s.want = 0 && !p.drains) || (s.closed && s.buf = 0)) then [{ s with done := true }] else [])

/-- The producer gives up early (an error in what it was computing): possible at any time, never
    something a blocked goroutine can count on. -/
def abortSteps (p : Policy) (s : PC) : List PC :=
  if !s.prodEnded && s.toSend > 0 then
    [if p.closesOnAbort then { s with toSend := 0, closed := true } else { s with toSend := 0, gone := true }] else []

/-- All successor configurations. -/
def steps (p : Policy) (s : PC) : List PC := commSteps p s ++ abortSteps p s

/-- Configurations reachable from `s`. -/
inductive Reach (p : Policy) : PC → PC → Prop
  | refl (s : PC) : Reach p s s
  | step (s t u : PC) : Reach p s t → u ∈ steps p t → Reach p s u

/-- Stuck: every goroutine that has not ended is blocked. -/
def stuck (p : Policy) (s : PC) : Bool := (commSteps p s).isEmpty

/-- A leak: stuck although some goroutine has not ended. -/
def leaked (p : Policy) (s : PC) : Bool := stuck p s && !s.final

/-- Work left: every step uses some of it up. -/
def work (s : PC) : Nat :=
  2 * s.toSend + s.buf + (if s.prodEnded then 0 else 1) + (if s.done then 0 else 1) + s.want

end BW.Model.Conc
