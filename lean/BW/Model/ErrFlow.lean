/-
How the error of a storage driver call travels to the result of a statement (C20).  The planner
composes driver calls in three ways:

  * `seq`  — one after the other with `if err != nil { return err }` between them (clauses of a pattern,
             graphs of a FROM list, Statement.Init);
  * `par`  — all started, every error collected, the whole fails if any did (`update`: one goroutine per
             target with a WaitGroup and a slice of errors; `specifyClauseWithTable`: an errgroup; a
             lookup and its row builder: both errors are read after `wg.Wait()`);
  * `drop` — the result of the inner plan is thrown away (`_ =`, an expression statement, a wrong
             variable returned): the shape of the defects D27 and D28.

`fails i` says whether driver call `i` returns an error.
-/
namespace BW.Model.ErrFlow

inductive Plan where
  | skip
  | call (id : Nat)
  | seq (a b : Plan)
  | par (a b : Plan)
  | drop (p : Plan)
  deriving Repr

/-- (did the plan report an error, which calls were made) -/
def run (fails : Nat → Bool) : Plan → Bool × List Nat
  | .skip => (false, [])
  | .call i => (fails i, [i])
  | .seq a b =>
    let ra := run fails a
    if ra.1 then ra else
    let rb := run fails b
    (rb.1, ra.2 ++ rb.2)
  | .par a b =>
    let ra := run fails a
    let rb := run fails b
    (ra.1 || rb.1, ra.2 ++ rb.2)
  | .drop p => (false, (run fails p).2)

/-- No result is thrown away anywhere in the plan. -/
def noDrop : Plan → Bool
  | .skip => true
  | .call _ => true
  | .seq a b => noDrop a && noDrop b
  | .par a b => noDrop a && noDrop b
  | .drop _ => false

end BW.Model.ErrFlow
