/-
Model of `storage/memoization`: a graph handle that remembers the answers of the wrapped graph.

The wrapped store is abstract: a state `W`, queries `Q` (method, arguments and every lookup option),
answers `A = ans w q`, updates `upd w u`.  The memoizer indexes its answers by `key q`.

Sequential semantics (`read`, `write`) and a small-step semantics for any number of concurrent readers
and writers at the memoizer's internal steps (the `verif` yield points of memoization.go):

  reader:  look the key up  → hit: answer | miss: remember the generation
           → forward to the wrapped graph and stream the answer
           → memoize it (only if the generation is still the same), done
  writer:  reset (generation+1, forget everything) → forward the update → reset again → done

`Policy` says which of the protections the code has (read off the source by `memofacts`).
-/
namespace BW.Model.Memo

structure Env (W Q A U K : Type) where
  ans : W → Q → A
  upd : W → U → W
  key : Q → K

structure Policy where
  checksGen : Bool      -- a result is memoized only if no reset happened since the lookup began
  resetsAfter : Bool    -- an update resets the memoization again after it was forwarded
  deriving DecidableEq, Repr

/-! ### One operation at a time -/

structure Seq (W K A : Type) where
  inner : W
  cache : K → Option A

variable {W Q A U K : Type} [DecidableEq K]

def Seq.read (E : Env W Q A U K) (s : Seq W K A) (q : Q) : A × Seq W K A :=
  match s.cache (E.key q) with
  | some a => (a, s)
  | none =>
    let a := E.ans s.inner q
    (a, { s with cache := fun k => if k = E.key q then some a else s.cache k })

def Seq.write (E : Env W Q A U K) (s : Seq W K A) (u : U) : Seq W K A :=
  { inner := E.upd s.inner u, cache := fun _ => none }

inductive Op (Q U : Type) where
  | read (q : Q)
  | write (u : U)

/-- Outputs of the reads of a history through the memoizer. -/
def Seq.run (E : Env W Q A U K) (s : Seq W K A) : List (Op Q U) → List A
  | [] => []
  | .read q :: ops => let (a, s') := s.read E q; a :: Seq.run E s' ops
  | .write u :: ops => Seq.run E (s.write E u) ops

/-- … and straight on the wrapped store. -/
def direct (E : Env W Q A U K) (w : W) : List (Op Q U) → List A
  | [] => []
  | .read q :: ops => E.ans w q :: direct E w ops
  | .write u :: ops => direct E (E.upd w u) ops

/-! ### Interleaved -/

inductive RPhase (A : Type) where
  | init
  | missed (g : Nat)
  | fetched (g : Nat) (a : A)
  | done (a : A)

inductive WPhase where
  | init | reset1 | forwarded | done
  deriving DecidableEq

inductive Thread (Q A U : Type) where
  | reader (q : Q) (ph : RPhase A)
  | writer (u : U) (ph : WPhase)

structure Sys (W Q A U K : Type) where
  inner : W
  gen : Nat
  cache : K → Option A
  threads : List (Thread Q A U)

/-- What thread `t` does next in system `s`: the new thread state and the new shared state. -/
def stepThread (P : Policy) (E : Env W Q A U K) (s : Sys W Q A U K) : Thread Q A U → Option (Thread Q A U × W × Nat × (K → Option A))
  | .reader q .init =>
    match s.cache (E.key q) with
    | some a => some (.reader q (.done a), s.inner, s.gen, s.cache)
    | none => some (.reader q (.missed s.gen), s.inner, s.gen, s.cache)
  | .reader q (.missed g) => some (.reader q (.fetched g (E.ans s.inner q)), s.inner, s.gen, s.cache)
  | .reader q (.fetched g a) =>
    let store := !P.checksGen || g == s.gen
    some (.reader q (.done a), s.inner, s.gen, if store then (fun k => if k = E.key q then some a else s.cache k) else s.cache)
  | .reader _ (.done _) => none
  | .writer u .init => some (.writer u .reset1, s.inner, s.gen + 1, fun _ => none)
  | .writer u .reset1 => some (.writer u .forwarded, E.upd s.inner u, s.gen, s.cache)
  | .writer u .forwarded =>
    if P.resetsAfter then some (.writer u .done, s.inner, s.gen + 1, fun _ => none)
    else some (.writer u .done, s.inner, s.gen, s.cache)
  | .writer _ .done => none

/-- Thread number `i` moves. -/
def Sys.step (P : Policy) (E : Env W Q A U K) (s : Sys W Q A U K) (i : Nat) : Option (Sys W Q A U K) :=
  match s.threads[i]? with
  | none => none
  | some t =>
    match stepThread P E s t with
    | none => none
    | some (t', w, g, c) => some { inner := w, gen := g, cache := c, threads := s.threads.set i t' }

/-- Reachability under any schedule. -/
inductive Reach (P : Policy) (E : Env W Q A U K) : Sys W Q A U K → Sys W Q A U K → Prop
  | refl (s : Sys W Q A U K) : Reach P E s s
  | step (s t u : Sys W Q A U K) (i : Nat) : Reach P E s t → t.step P E i = some u → Reach P E s u

/-- A schedule as data (for the correspondence driver). -/
def Sys.runSchedule (P : Policy) (E : Env W Q A U K) (s : Sys W Q A U K) : List Nat → Sys W Q A U K
  | [] => s
  | i :: is => match s.step P E i with
    | some s' => Sys.runSchedule P E s' is
    | none => Sys.runSchedule P E s is

def Thread.midUpdate : Thread Q A U → Bool
  | .writer _ .forwarded => true
  | _ => false

/-- No update has been forwarded without its closing reset. -/
def Sys.settled (s : Sys W Q A U K) : Bool := s.threads.all fun t => !t.midUpdate

/-- Everything memoized is what the wrapped store answers now. -/
def Sys.cacheCurrent (E : Env W Q A U K) (s : Sys W Q A U K) : Prop :=
  ∀ k a, s.cache k = some a → ∀ q, E.key q = k → a = E.ans s.inner q

/-- Several handles of one graph. `shared`: every handle uses the same memoizer (what Store.Graph hands
    out since ec2bfc6); otherwise each handle has its own, and an update only resets the one it goes through. -/
structure Multi (W K A : Type) where
  inner : W
  caches : Nat → K → Option A

inductive HOp (Q U : Type) where
  | read (handle : Nat) (q : Q)
  | write (handle : Nat) (u : U)


def slot (shared : Bool) (h : Nat) : Nat := if shared then 0 else h

def Multi.run (shared : Bool) (E : Env W Q A U K) (s : Multi W K A) : List (HOp Q U) → List A
  | [] => []
  | .read h q :: ops =>
    match s.caches (slot shared h) (E.key q) with
    | some a => a :: Multi.run shared E s ops
    | none =>
      let a := E.ans s.inner q
      a :: Multi.run shared E { s with caches := fun i k => if i = slot shared h ∧ k = E.key q then some a else s.caches i k } ops
  | .write h u :: ops =>
    Multi.run shared E { inner := E.upd s.inner u, caches := fun i k => if i = slot shared h then none else s.caches i k } ops

def directH (E : Env W Q A U K) (w : W) : List (HOp Q U) → List A
  | [] => []
  | .read _ q :: ops => E.ans w q :: directH E w ops
  | .write _ u :: ops => directH E (E.upd w u) ops

end BW.Model.Memo
