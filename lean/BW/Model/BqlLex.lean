import BW.Model.Lexer
import BW.Generated.Grammar
import BW.Generated.LexFacts

/-! The BQL lexer tables: regenerated keyword / single-symbol / literal-type tables plus the
    token kinds named in lexer.go. -/
namespace BW.Model
open BW.Generated

def bqlLex : LexTables Tok where
  keywords := lexKeywords
  singles := lexSingles
  litTypes := lexLiteralTypes
  tError := .ERROR
  tEOF := .EOF
  tBinding := .BINDING
  tNode := .NODE
  tBlank := .BLANK_NODE
  tLiteral := .LITERAL
  tPredicate := .PREDICATE
  tPredBound := .PREDICATE_BOUND
  tTime := .TIME
  tFilterFn := .FILTER_FUNCTION
  tFilter := .FILTER
  globalTimeAfter := [.BEFORE, .AFTER, .BETWEEN]
  localTimeAfter := [.LT, .GT, .EQ]

end BW.Model
