/-
Model of `bql/lexer/lexer.go` as a pure function from a list of classified runes to the list of
emitted tokens (the channel/goroutine protocol is C08's).

The Go lexer is a state machine over (input, start, pos, width, lastTokenType).  At a token boundary its
future depends only on (lastTokenType, pending junk already consumed since `start`, remaining input);
the model is written in that "peek" style: every sub-lexer maps the remaining runes to the consumed
token text and the new remainder, so `input = consumed ++ rest` holds by construction.

Runes arrive classified by Go's own `unicode` package (letter/digit/space, ToLower, the smallest member
of the simple-fold orbit used by `strings.EqualFold`): the harness supplies them, the model never
re-implements Unicode tables.
-/
import BW.Model.Store

namespace BW.Model

structure Rune where
  cp : Nat                 -- code point (0xFFFD with the single raw byte for invalid UTF-8)
  bytes : Bytes
  letter : Bool
  digit : Bool
  space : Bool
  lower : Nat              -- unicode.ToLower
  fold : Nat               -- least code point of the SimpleFold orbit
  deriving DecidableEq, Repr

structure LexTables (K : Type) where
  keywords : List (List Nat × K)
  singles : List (Nat × K)
  litTypes : List (List Nat)
  tError : K
  tEOF : K
  tBinding : K
  tNode : K
  tBlank : K
  tLiteral : K
  tPredicate : K
  tPredBound : K
  tTime : K
  tFilterFn : K
  tFilter : K
  globalTimeAfter : List K
  localTimeAfter : List K

/-- Result of one sub-lexer: a token (kind, text, remainder) or the terminal error (text). -/
inductive LStep (K : Type) where
  | tok (k : K) (text : List Rune) (rest : List Rune)
  | err (text : List Rune)

section
variable {K : Type} [DecidableEq K]

theorem dropWhile_length_le {α : Type} (p : α → Bool) (l : List α) : (l.dropWhile p).length ≤ l.length := by
  induction l with
  | nil => simp
  | cons a l ih =>
    simp only [List.dropWhile_cons]
    split
    · simp only [List.length_cons]; omega
    · simp

def isNameRune (r : Rune) : Bool := r.letter || r.digit || r.cp == 95

/-- Fold representative of an ASCII keyword character (the keywords are lower-case ASCII). -/
def foldAscii (c : Nat) : Nat := if 97 ≤ c ∧ c ≤ 122 then c - 32 else c

/-- `strings.EqualFold(word, keyword)`. -/
def equalFold : List Rune → List Nat → Bool
  | [], [] => true
  | r :: rs, c :: cs => (r.cp == c || r.fold == foldAscii c) && equalFold rs cs
  | _, _ => false

def lexBinding (T : LexTables K) : List Rune → LStep K
  | [] => .err []
  | q :: t => .tok T.tBinding (q :: t.takeWhile isNameRune) (t.dropWhile isNameRune)

def findKeyword (word : List Rune) : List (List Nat × K) → Option K
  | [] => none
  | (kw, k) :: rest => if equalFold word kw then some k else findKeyword word rest

def lexKeyword (T : LexTables K) (rest : List Rune) : LStep K :=
  let word := rest.takeWhile (·.letter)
  match findKeyword word T.keywords with
  | some k => .tok k word (rest.dropWhile (·.letter))
  | none => .err (rest.takeWhile (fun r => !r.space))

def lexFilterFunction (T : LexTables K) : List Rune → LStep K
  | [] => .err []
  | r :: t =>
    let name := r :: t.takeWhile (·.letter)
    match t.dropWhile (·.letter) with
    | [] => .err name
    | n :: after => if n.cp == 40 then .tok T.tFilterFn name (n :: after) else .err (name ++ [n])

/-- The scanning loop of lexNode. `acc` is the consumed text in reverse. -/
def lexNodeGo (T : LexTables K) : List Rune → List Rune → Bool → LStep K
  | acc, [], _ => .err acc.reverse
  | acc, r :: t, lt =>
    if r.cp == 92 then
      match t with
      | n :: t' => if n.cp == 60 then lexNodeGo T (n :: r :: acc) t' lt else lexNodeGo T (r :: acc) (n :: t') lt
      | [] => lexNodeGo T (r :: acc) [] lt
    else if r.cp == 60 then lexNodeGo T (r :: acc) t true
    else if r.cp == 62 then
      (if lt then .tok T.tNode (r :: acc).reverse t else .err (r :: acc).reverse)
    else lexNodeGo T (r :: acc) t lt
termination_by _ rest _ => rest.length

def lexNode (T : LexTables K) (rest : List Rune) : LStep K := lexNodeGo T [] rest false

def lexBlankNode (T : LexTables K) : List Rune → LStep K
  | [] => .err []
  | u :: t =>
    match t with
    | [] => .err [u]
    | c :: t1 =>
      if c.cp != 58 then .err [u, c] else
      match t1 with
      | [] => .err [u, c]
      | l :: t2 =>
        if !l.letter then .err [u, c, l]
        else .tok T.tBlank (u :: c :: l :: t2.takeWhile isNameRune) (t2.dropWhile isNameRune)

def isPrefixB : Bytes → Bytes → Bool
  | [], _ => true
  | _ :: _, [] => false
  | a :: as, b :: bs => a == b && isPrefixB as bs

/-- `strings.Index` on bytes. -/
def indexOf (pat : Bytes) : Bytes → Nat → Option Nat
  | [], i => if pat.isEmpty then some i else none
  | b :: bs, i => if isPrefixB pat (b :: bs) then some i else indexOf pat bs (i + 1)

def anchorPat : Bytes := [34, 64, 91]                       -- "@[
def litTypePat : Bytes := [34, 94, 94, 116, 121, 112, 101, 58]   -- "^^type:

/-- `lexer.consume(text)`: accept runes whose ToLower equals the (ASCII) pattern's ToLower.
    Returns the consumed runes (reversed onto acc) and the remainder, or the state at the failure. -/
def asciiLower (c : Nat) : Nat := if 65 ≤ c ∧ c ≤ 90 then c + 32 else c

def consumePat : List Nat → List Rune → List Rune → (Bool × List Rune × List Rune)
  | [], acc, rest => (true, acc, rest)
  | _ :: _, acc, [] => (false, acc, [])
  | c :: cs, acc, r :: t =>
    if r.lower == asciiLower c then consumePat cs (r :: acc) t
    else (false, acc, r :: t)

/-- After `"@[`: scan to `]` counting commas. -/
def predTail (T : LexTables K) : List Rune → List Rune → Nat → LStep K
  | acc, [], _ => .err acc.reverse
  | acc, r :: t, commas =>
    let commas := if r.cp == 44 then commas + 1 else commas
    if r.cp == 93 then
      (if commas > 1 then .err (r :: acc).reverse
       else .tok (if commas == 0 then T.tPredicate else T.tPredBound) (r :: acc).reverse t)
    else predTail T (r :: acc) t commas

def lexPredicateGo (T : LexTables K) : List Rune → List Rune → LStep K
  | acc, [] => .err acc.reverse
  | acc, r :: t =>
    if r.cp == 92 then
      match t with
      | n :: t' =>
        -- a backslash escapes a following quote or backslash (the ID is printed with %q)
        if n.cp == 34 || n.cp == 92 then lexPredicateGo T (n :: r :: acc) t' else lexPredicateGo T (r :: acc) (n :: t')
      | [] => lexPredicateGo T (r :: acc) []
    else if r.cp == 34 then
      match consumePat [34, 64, 91] acc (r :: t) with
      | (true, acc', rest') => predTail T acc' rest' 0
      | (false, acc', _) => .err acc'.reverse
    else lexPredicateGo T (r :: acc) t
termination_by _ rest => rest.length

def lexPredicate (T : LexTables K) : List Rune → LStep K
  | [] => .err []
  | q :: t => lexPredicateGo T [q] t

def lowerCps (rs : List Rune) : List Nat := rs.map (·.lower)

def lexLiteralGo (T : LexTables K) : List Rune → List Rune → LStep K
  | acc, [] => .err acc.reverse
  | acc, r :: t =>
    if r.cp == 92 then
      match t with
      | n :: t' => if n.cp == 34 then lexLiteralGo T (n :: r :: acc) t' else lexLiteralGo T (r :: acc) (n :: t')
      | [] => lexLiteralGo T (r :: acc) []
    else if r.cp == 34 then
      match consumePat [34, 94, 94, 116, 121, 112, 101, 58] acc (r :: t) with
      | (true, acc', rest') =>
        let ty := rest'.takeWhile (fun x => x.letter || x.digit)
        let after := rest'.dropWhile (fun x => x.letter || x.digit)
        if T.litTypes.contains (lowerCps ty) then .tok T.tLiteral (acc'.reverse ++ ty) after
        else match after with
          | [] => .err (acc'.reverse ++ ty)
          | x :: _ => .err (acc'.reverse ++ ty ++ [x])
      | (false, acc', _) => .err acc'.reverse
    else lexLiteralGo T (r :: acc) t
termination_by _ rest => rest.length

def lexLiteral (T : LexTables K) : List Rune → LStep K
  | [] => .err []
  | q :: t => lexLiteralGo T [q] t

def runesBytes (rs : List Rune) : Bytes := rs.flatMap (·.bytes)

def lexPredicateOrLiteral (T : LexTables K) (rest : List Rune) : LStep K :=
  -- the delimiters are looked for after the opening quote (text[1:])
  let bs := (runesBytes rest).drop 1
  let pIdx := indexOf anchorPat bs 0
  let lIdx := indexOf litTypePat bs 0
  match pIdx, lIdx with
  | none, none => .err []
  | some _, none => lexPredicate T rest
  | some p, some l => if p < l then lexPredicate T rest else lexLiteral T rest
  | none, some _ => lexLiteral T rest

/-- lexPredicateGlobalTime after its first rune. -/
def globalTimeGo (T : LexTables K) : List Rune → List Rune → Nat → LStep K
  | acc, [], commas => .tok (if commas == 0 then T.tTime else T.tPredBound) acc.reverse []
  | acc, r :: t, commas =>
    if r.cp == 44 then
      (if commas > 0 then .err (r :: acc).reverse
       else
         -- "you could have several spaces after a comma"
         globalTimeGo T ((t.takeWhile (·.space)).reverse ++ (r :: acc)) (t.dropWhile (·.space)) (commas + 1))
    else if r.cp == 59 then .tok (if commas == 0 then T.tTime else T.tPredBound) acc.reverse (r :: t)
    else if r.space then .tok (if commas == 0 then T.tTime else T.tPredBound) (r :: acc).reverse t
    else globalTimeGo T (r :: acc) t commas
termination_by _ rest _ => rest.length
decreasing_by
  all_goals simp_wf
  all_goals (have := dropWhile_length_le (fun x : Rune => x.space) t; omega)

def lexGlobalTime (T : LexTables K) : List Rune → LStep K
  | [] => .err []
  | d :: t => globalTimeGo T [d] t 0

def localTimeGo (T : LexTables K) : List Rune → List Rune → LStep K
  | acc, [] => .tok T.tTime acc.reverse []
  | acc, r :: t =>
    if r.cp == 59 || r.cp == 41 then .tok T.tTime acc.reverse (r :: t)
    else if r.space then .tok T.tTime (r :: acc).reverse t
    else localTimeGo T (r :: acc) t

def lexLocalTime (T : LexTables K) : List Rune → LStep K
  | [] => .err []
  | d :: t => localTimeGo T [d] t

def lookupSingle (cp : Nat) : List (Nat × K) → Option K
  | [] => none
  | (c, k) :: rest => if c == cp then some k else lookupSingle cp rest

/-- What lexToken dispatches to for the rune at the token boundary (`none`: junk/space path). -/
def dispatch (T : LexTables K) (last : K) (r : Rune) (rest : List Rune) : Option (LStep K) :=
  if r.digit && T.globalTimeAfter.contains last then some (lexGlobalTime T rest)
  else if r.digit && T.localTimeAfter.contains last then some (lexLocalTime T rest)
  else if r.cp == 63 then some (lexBinding T rest)
  else if r.cp == 47 then some (lexNode T rest)
  else if r.cp == 95 then some (lexBlankNode T rest)
  else if r.cp == 34 then some (lexPredicateOrLiteral T rest)
  else if r.letter then some (if last == T.tFilter then lexFilterFunction T rest else lexKeyword T rest)
  else match lookupSingle r.cp T.singles with
    | some k => some (.tok k [r] (rest.drop 1))
    | none => none

/-- The lexer's main loop. `pending`: junk runes consumed since `start` (glued to the next text). -/
def lexLoop (T : LexTables K) : Nat → K → List Rune → List Rune → List (K × List Rune)
  | 0, _, _, _ => []
  | _ + 1, _, pending, [] => [(T.tEOF, pending)]
  | f + 1, last, pending, r :: t =>
    match dispatch T last r (r :: t) with
    | some (.tok k text rest') => (k, pending ++ text) :: lexLoop T f k [] (rest'.dropWhile (·.space))
    | some (.err text) => [(T.tError, pending ++ text)]
    | none =>
      if r.space then lexLoop T f last [] t
      else match t with
        | [] => [(T.tEOF, pending ++ [r])]
        | r2 :: t2 => lexLoop T f last (pending ++ [r, r2]) t2

def lex (T : LexTables K) (input : List Rune) : List (K × List Rune) :=
  lexLoop T (input.length + 1) T.tError [] input

end

end BW.Model
