/-
Model of the hooks of `bql/semantic/hooks.go` that build a SELECT statement: `whereSubjectClause`,
`wherePredicateClause`, `whereObjectClause` (each a closure with its own `lastNopToken`, reset when the statement
changes), `whereInitWorkingClause`, `whereNextWorkingClause`, `orderByBindings` + checker, `varAccumulator`
(+ the flush of `bindingsGraphChecker`), `inputGraphAccumulator`, `groupByBindings`, `limitCollection`,
`collectGlobalBounds`; and of those that build the statements changing a store: `dataAccumulator` (a closure
holding the subject and predicate seen so far), `graphAccumulator`, `outputGraphAccumulator`,
`TypeBindingClauseHook`, the CONSTRUCT / DECONSTRUCT template hooks (`constructSubject`, `constructPredicate`,
`constructObject`, `InitWorkingConstructClause`, `NextWorkingConstructClause`,
`NextWorkingConstructPredicateObjectPair`).  Tokens carry what Go's own parsers make of their text.
Which grammar symbol feeds which hook is data (`BW.Generated.HookFacts`, found by probing the hooks of
`grammar.SemanticBQL()` on every run).
-/
import BW.Model.Query
import BW.Model.Statements
open BW.Model

namespace BW.Model.Hooks

/-- Token kinds the WHERE-clause hooks distinguish. -/
inductive HK
  | binding | node | predicate | predicateBound | literal | as_ | type_ | id_ | at_ | optional | lbracket | rbracket
  | asc | desc | sum | count | distinct | comma | before | after | between | time | limit_ | blank | other
  deriving DecidableEq, Repr

structure BoundP where
  id : Bytes
  loAlias : Bytes := []
  hiAlias : Bytes := []
  lo : Option Time := none
  hi : Option Time := none
  deriving Repr

/-- A token with what Go's own parsers make of its text (shipped by the harness): `node.Parse`,
    `predicate.Parse`, the two regular expressions of `processPredicate` / `processPredicateBound`,
    `triple.ParseObject`. -/
structure HTk where
  k : HK
  text : Bytes := []
  node : Option Node := none
  pred : Option Pred := none
  part : Option (Bytes × Bytes) := none
  bound : Option BoundP := none
  obj : Option Obj := none
  time : Option Time := none            -- `time.Parse` of a TIME token
  pair : Option (Time × Time) := none   -- a `BETWEEN t1, t2` bound (lexed as one PREDICATE_BOUND token)
  deriving Repr

/-- Per-hook closure state: the last token that was not consumed as a value (`lastNopToken`), and the
    statement it was seen in (`cur`). -/
structure HState where
  cur : Nat := 0
  last : Option HK := none
  deriving Repr

def HState.enter (h : HState) (stmt : Nat) : HState := if h.cur = stmt then h else { cur := stmt, last := none }

def isTemporal : Pred → Bool
  | .imm _ => false
  | .tmp _ _ => true

/-- `whereSubjectClause`. -/
def subjStep (c : Clause) (last : Option HK) (tk : HTk) : Option (Clause × Option HK) :=
  match tk.k with
  | .lbracket => some (c, none)
  | .rbracket => some (c, none)
  | .optional => some ({ c with optional := true }, none)
  | .node =>
    if c.s.isSome then none else
    match tk.node with
    | none => none
    | some n => some ({ c with s := some n }, none)
  | .binding =>
    match last with
    | none => if c.sBinding ≠ [] then none else some ({ c with sBinding := tk.text }, none)
    | some .as_ => if c.sAlias ≠ [] then none else some ({ c with sAlias := tk.text }, none)
    | some .type_ => if c.sTypeAlias ≠ [] then none else some ({ c with sTypeAlias := tk.text }, none)
    | some .id_ => if c.sIDAlias = [] then some ({ c with sIDAlias := tk.text }, none) else some (c, some .binding)
    | some _ => some (c, some .binding)
  | k => some (c, some k)

/-- `processPredicate` on a predicate token: (P, PID, PAnchorBinding, PTemporal). -/
def processPredicate (tk : HTk) : Option (Option Pred × Bytes × Bytes × Bool) :=
  match tk.pred with
  | some p => some (some p, [], [], isTemporal p)
  | none =>
    match tk.part with
    | some (id, ta) => some (none, id, ta, ta ≠ [])
    | none => none

/-- `wherePredicateClause`. -/
def predStep (c : Clause) (last : Option HK) (tk : HTk) : Option (Clause × Option HK) :=
  match tk.k with
  | .predicate =>
    if c.p.isSome then none else
    match processPredicate tk with
    | none => none
    | some (p, id, ab, tmp) => some ({ c with p := p, pID := id, pAnchorBinding := ab, pTemporal := tmp }, none)
  | .predicateBound =>
    if c.pLower.isSome || c.pUpper.isSome || c.pLowerAlias ≠ [] || c.pUpperAlias ≠ [] then none else
    match tk.bound with
    | none => none
    | some b => some ({ c with pID := b.id, pLowerAlias := b.loAlias, pUpperAlias := b.hiAlias, pLower := b.lo,
                               pUpper := b.hi, pTemporal := true }, none)
  | .binding =>
    match last with
    | none => if c.pBinding ≠ [] then none else some ({ c with pBinding := tk.text }, none)
    | some .as_ => if c.pAlias ≠ [] then none else some ({ c with pAlias := tk.text }, none)
    | some .id_ => if c.pIDAlias ≠ [] then none else some ({ c with pIDAlias := tk.text }, none)
    | some .at_ => if c.pAnchorAlias ≠ [] then none else some ({ c with pAnchorAlias := tk.text }, none)
    | some _ => none
  | k => some (c, some k)

/-- `whereObjectClause`. -/
def objStep (c : Clause) (last : Option HK) (tk : HTk) : Option (Clause × Option HK) :=
  match tk.k with
  | .node | .literal =>
    if c.o.isSome then none else
    match tk.obj with
    | none => none
    | some o => some ({ c with o := some o }, none)
  | .predicate =>
    if c.o.isSome then none else
    match processPredicate tk with
    | none => none
    | some (p, id, ab, tmp) =>
      some ({ c with o := p.map Obj.pred, oID := id, oAnchorBinding := ab, oTemporal := tmp }, none)
  | .predicateBound =>
    if c.oLower.isSome || c.oUpper.isSome || c.oLowerAlias ≠ [] || c.oUpperAlias ≠ [] then none else
    match tk.bound with
    | none => none
    | some b => some ({ c with oID := b.id, oLowerAlias := b.loAlias, oUpperAlias := b.hiAlias, oLower := b.lo,
                               oUpper := b.hi, oTemporal := true }, none)
  | .binding =>
    match last with
    | none => if c.oBinding ≠ [] then none else some ({ c with oBinding := tk.text }, none)
    | some .as_ => if c.oAlias ≠ [] then none else some ({ c with oAlias := tk.text }, none)
    | some .type_ => if c.oTypeAlias ≠ [] then none else some ({ c with oTypeAlias := tk.text }, none)
    | some .id_ => if c.oIDAlias ≠ [] then none else some ({ c with oIDAlias := tk.text }, none)
    | some .at_ => if c.oAnchorAlias ≠ [] then none else some ({ c with oAnchorAlias := tk.text }, none)
    | some _ => none
  | k => some (c, some k)

/-! ### ORDER BY -/

/-- `orderByBindings`: a binding appends a key (ascending), ASC / DESC set the direction of the last key. -/
def setLast (cfg : List (Bytes × Bool)) (d : Bool) : List (Bytes × Bool) :=
  match cfg.reverse with
  | [] => cfg
  | (b, _) :: rest => rest.reverse ++ [(b, d)]

def orderStep (cfg : List (Bytes × Bool)) (tk : HTk) : List (Bytes × Bool) :=
  match tk.k with
  | .binding => cfg ++ [(tk.text, false)]
  | .asc => setLast cfg false
  | .desc => setLast cfg true
  | _ => cfg

/-- `orderByBindingsChecker`, the part that rewrites: a key listed twice with two directions is an error;
    otherwise the first occurrence of each key is kept, in the order written. -/
def consistent : List (Bytes × Bool) → List (Bytes × Bool) → Bool
  | _, [] => true
  | seen, (b, d) :: rest =>
    match seen.find? (·.1 == b) with
    | some (_, d') => d' == d && consistent seen rest
    | none => consistent (seen ++ [(b, d)]) rest

def dedupCfg : List (Bytes × Bool) → List (Bytes × Bool) → List (Bytes × Bool)
  | acc, [] => acc
  | acc, (b, d) :: rest => if acc.any (·.1 == b) then dedupCfg acc rest else dedupCfg (acc ++ [(b, d)]) rest

def orderCheck (cfg : List (Bytes × Bool)) : Option (List (Bytes × Bool)) :=
  if consistent [] cfg then some (dedupCfg [] cfg) else none

/-! ### The head of a SELECT: projections, FROM graphs, GROUP BY, LIMIT, global time bounds -/

/-- What those hooks build (ORDER BY included). -/
structure Head where
  projs : List Proj := []
  wproj : Proj := { binding := [] }
  graphs : List Bytes := []
  groupBy : List Bytes := []
  order : List (Bytes × Bool) := []
  limit : Option Int := none
  lower : Option Time := none
  upper : Option Time := none
  kind : Stm.Kind := .query               -- `BindType`
  graphNames : List Bytes := []           -- CREATE / DROP
  outputs : List Bytes := []              -- INTO / IN
  data : List Triple := []                -- INSERT / DELETE
  ccs : List Stm.CClause := []            -- CONSTRUCT / DECONSTRUCT template

def projIsEmpty (p : Proj) : Bool := p.binding = [] && p.alias = [] && p.op == .none && !p.distinct

/-- `Statement.AddWorkingProjection`. -/
def Head.flush (h : Head) : Head :=
  if projIsEmpty h.wproj then h else { h with projs := h.projs ++ [h.wproj], wproj := { binding := [] } }

/-- `varAccumulator` (its `lastNopToken` only ever matters when it is `AS`). -/
def varStep (h : Head) (last : Option HK) (tk : HTk) : Option (Head × Option HK) :=
  match tk.k with
  | .binding =>
    if h.wproj.binding = [] then some ({ h with wproj := { h.wproj with binding := tk.text } }, last)
    else if last = some .as_ then some (({ h with wproj := { h.wproj with alias := tk.text } } : Head).flush, none)
    else none
  | .as_ => some (h, some .as_)
  | .sum => some ({ h with wproj := { h.wproj with op := .sum } }, last)
  | .count => some ({ h with wproj := { h.wproj with op := .count } }, last)
  | .distinct => some ({ h with wproj := { h.wproj with distinct := true } }, last)
  | .comma => some (h.flush, last)
  | _ => some (h, none)

/-- `inputGraphAccumulator`. -/
def graphStep (h : Head) (tk : HTk) : Option Head :=
  match tk.k with
  | .comma => some h
  | .binding => some { h with graphs := h.graphs ++ [tk.text] }
  | _ => none

/-- `groupByBindings`. -/
def groupStep (h : Head) (tk : HTk) : Head :=
  match tk.k with
  | .binding => { h with groupBy := h.groupBy ++ [tk.text] }
  | _ => h

/-- `limitCollection`: a non-negative int64 literal. -/
def limitStep (h : Head) (tk : HTk) : Option Head :=
  match tk.k with
  | .literal =>
    match tk.obj with
    | some (.lit (.int n)) => if n < 0 then none else some { h with limit := some n }
    | _ => none
  | .limit_ => some h
  | _ => none

/-- Closure state of `collectGlobalBounds`; and of those that build the statements changing a store: `dataAccumulator` (a closure
holding the subject and predicate seen so far), `graphAccumulator`, `outputGraphAccumulator`,
`TypeBindingClauseHook`, the CONSTRUCT / DECONSTRUCT template hooks (`constructSubject`, `constructPredicate`,
`constructObject`, `InitWorkingConstructClause`, `NextWorkingConstructClause`,
`NextWorkingConstructPredicateObjectPair`). -/
structure BState where
  cur : Nat := 0
  op : Option HK := none
  last : Option HK := none
  deriving Repr

def BState.enter (b : BState) (stmt : Nat) : BState := if b.cur = stmt then b else { cur := stmt }

/-- `collectGlobalBounds`; and of those that build the statements changing a store: `dataAccumulator` (a closure
holding the subject and predicate seen so far), `graphAccumulator`, `outputGraphAccumulator`,
`TypeBindingClauseHook`, the CONSTRUCT / DECONSTRUCT template hooks (`constructSubject`, `constructPredicate`,
`constructObject`, `InitWorkingConstructClause`, `NextWorkingConstructClause`,
`NextWorkingConstructPredicateObjectPair`). -/
def boundsStep (h : Head) (b : BState) (tk : HTk) : Option (Head × BState) :=
  match tk.k with
  | .before | .after | .between =>
    if b.last.isSome then none else some (h, { b with op := some tk.k, last := some tk.k })
  | .comma =>
    if b.last.isNone || b.op ≠ some .between then none else some (h, { b with last := some .comma })
  | .time =>
    if b.last.isNone then none else
    match tk.time with
    | none => none
    | some ta =>
      if b.last = some .comma || b.last = some .before then
        some ({ h with upper := some ta }, { b with op := none, last := none })
      else if b.op ≠ some .between then some ({ h with lower := some ta }, { b with op := none, last := none })
      else some ({ h with lower := some ta }, b)
  | .predicateBound =>
    match tk.pair with
    | some (lo, hi) => some ({ h with lower := some lo, upper := some hi }, b)
    | none => none
  | _ => none

/-! ### Statements that change a store -/

/-- `graphAccumulator` / `outputGraphAccumulator`: bindings separated by commas. -/
def namesStep (l : List Bytes) (tk : HTk) : Option (List Bytes) :=
  match tk.k with
  | .comma => some l
  | .binding => some (l ++ [tk.text])
  | _ => none

/-- Closure state of `dataAccumulator`: the subject and the predicate of the triple under construction. -/
structure DAcc where
  cur : Nat := 0
  s : Option Node := none
  p : Option Pred := none

def DAcc.enter (a : DAcc) (stmt : Nat) : DAcc := if a.cur = stmt then a else { cur := stmt }

/-- `dataAccumulator`: NODE, PREDICATE and LITERAL tokens fill subject, predicate, object in turn
    (`node.Parse`, `predicate.Parse`, `triple.ParseObject`); a full triple is added to the data. -/
def dataStep (data : List Triple) (a : DAcc) (tk : HTk) : Option (List Triple × DAcc) :=
  if tk.k ≠ .node ∧ tk.k ≠ .predicate ∧ tk.k ≠ .literal then some (data, a) else
  match a.s with
  | none => if tk.k ≠ .node then none else tk.node.map fun n => (data, { a with s := some n })
  | some s =>
    match a.p with
    | none => if tk.k ≠ .predicate then none else tk.pred.map fun p => (data, { a with p := some p })
    | some p => tk.obj.map fun o => (data ++ [⟨s, p, o⟩], { a with s := none, p := none })

/-- The working construct clause: its subject, the pairs closed so far, the working pair. -/
structure WCC where
  s : Option Node := none
  sBinding : Bytes := []
  pairs : List Stm.POPair := []
  wpair : Option Stm.POPair := none

/-- `ConstructPredicateObjectPair.IsEmpty` / `ConstructClause.IsEmpty` (`reflect.DeepEqual` with the zero value). -/
def popIsEmpty (p : Stm.POPair) : Bool :=
  p.p.isNone && p.pID = [] && p.pBinding = [] && p.pAnchorBinding = [] && !p.pTemporal &&
  p.o.isNone && p.oID = [] && p.oBinding = [] && p.oAnchorBinding = [] && !p.oTemporal

def wccIsEmpty (c : WCC) : Bool := c.s.isNone && c.sBinding = [] && c.pairs = [] && c.wpair.isNone

def WCC.toClause (c : WCC) : Stm.CClause := { s := c.s, sBinding := c.sBinding, pairs := c.pairs }

/-- `constructSubject`. -/
def cSubjStep (c : WCC) (tk : HTk) : Option WCC :=
  if c.s.isSome || c.sBinding ≠ [] then none else
  match tk.k with
  | .node | .blank => tk.node.map fun n => { c with s := some n }
  | .binding => some { c with sBinding := tk.text }
  | _ => some c

/-- `constructPredicate`. -/
def cPredStep (p : Stm.POPair) (tk : HTk) : Option Stm.POPair :=
  if p.p.isSome || p.pID ≠ [] || p.pBinding ≠ [] then none else
  match tk.k with
  | .predicate => (processPredicate tk).map fun (pr, id, ab, tmp) => { p with p := pr, pID := id, pAnchorBinding := ab, pTemporal := tmp }
  | .binding => some { p with pBinding := tk.text }
  | _ => some p

/-- `constructObject`. -/
def cObjStep (p : Stm.POPair) (tk : HTk) : Option Stm.POPair :=
  if p.o.isSome || p.oID ≠ [] || p.oBinding ≠ [] then none else
  match tk.k with
  | .node | .blank | .literal => tk.obj.map fun o => { p with o := some o }
  | .predicate => (processPredicate tk).map fun (pr, id, ab, tmp) =>
      { p with o := pr.map Obj.pred, oID := id, oAnchorBinding := ab, oTemporal := tmp }
  | .binding => some { p with oBinding := tk.text }
  | _ => some p

/-- `AddWorkingPredicateObjectPair`. -/
def WCC.closePair (c : WCC) : WCC :=
  { c with pairs := (match c.wpair with
                     | some p => if popIsEmpty p then c.pairs else c.pairs ++ [p]
                     | none => c.pairs),
           wpair := some {} }

/-- `AddWorkingConstructClause`. -/
def closeClause (ccs : List Stm.CClause) : Option WCC → List Stm.CClause
  | some c => if wccIsEmpty c then ccs else ccs ++ [c.toClause]
  | none => ccs

/-- Which hook a grammar symbol's tokens go to. -/
inductive Part | subj | pred | obj | order | vars | inGraphs | group | limit | bounds
  | data | graphs | outGraphs | cSubj | cPred | cObj | none
  deriving DecidableEq, Repr

/-- What a clause hook of the grammar does to the pattern under construction. -/
inductive CHook | next | init | orderCheck | flushVars | bindType (k : Stm.Kind) | cInit | cNext | cPair | none
  deriving DecidableEq, Repr

/-- What the parser hands to the hooks, for the WHERE part of a statement. -/
inductive HEv where
  | tok (part : Part) (tk : HTk)
  | next            -- `WhereNextWorkingClauseHook` (start and end of FIRST_CLAUSE / CLAUSES / MORE_CLAUSES)
  | init            -- `WhereInitWorkingClauseHook` (start of WHERE)
  | orderCheck      -- `OrderByBindingsChecker` (end of ORDER_BY)
  | flushVars       -- `VarBindingsGraphChecker` (end of WHERE): the working projection is flushed
  | bindType (k : Stm.Kind)   -- `TypeBindingClauseHook`, `ShowClauseHook`
  | cInit           -- `InitWorkingConstructClause` (start of CONSTRUCT_FACTS / DECONSTRUCT_FACTS)
  | cNext           -- `NextWorkingConstructClause` (start and end of (MORE_)(DE)CONSTRUCT_TRIPLES)
  | cPair           -- `NextWorkingConstructPredicateObjectPair` (start of CONSTRUCT_PREDICATE, end of CONSTRUCT_OBJECT)

/-- The statement under construction, as far as the WHERE hooks see it, and the three closures. -/
structure WState where
  stmt : Nat := 0
  working : Clause := {}
  pattern : List Clause := []
  hs : HState := {}
  hp : HState := {}
  ho : HState := {}
  hv : HState := {}
  hb : BState := {}
  da : DAcc := {}
  wcc : Option WCC := none
  head : Head := {}

def emptyClause : Clause := {}

def clauseIsEmpty (c : Clause) : Bool :=
  !c.optional && c.s.isNone && c.sBinding = [] && c.sAlias = [] && c.sTypeAlias = [] && c.sIDAlias = [] &&
  c.p.isNone && c.pID = [] && c.pBinding = [] && c.pAlias = [] && c.pIDAlias = [] && c.pAnchorBinding = [] &&
  c.pAnchorAlias = [] && c.pLower.isNone && c.pUpper.isNone && c.pLowerAlias = [] && c.pUpperAlias = [] && !c.pTemporal &&
  c.o.isNone && c.oBinding = [] && c.oAlias = [] && c.oID = [] && c.oTypeAlias = [] && c.oIDAlias = [] &&
  c.oAnchorBinding = [] && c.oAnchorAlias = [] && c.oLower.isNone && c.oUpper.isNone && c.oLowerAlias = [] &&
  c.oUpperAlias = [] && !c.oTemporal

def wstep (w : WState) : HEv → Option WState
  | .init => some { w with working := {} }
  | .next => some { w with pattern := if clauseIsEmpty w.working then w.pattern else w.pattern ++ [w.working], working := {} }
  | .tok .none _ => some w
  | .tok .order tk => some { w with head := { w.head with order := orderStep w.head.order tk } }
  | .orderCheck => (orderCheck w.head.order).map fun o => { w with head := { w.head with order := o } }
  | .flushVars => some { w with head := w.head.flush }
  | .tok .inGraphs tk => (graphStep w.head tk).map fun h => { w with head := h }
  | .tok .group tk => some { w with head := groupStep w.head tk }
  | .tok .limit tk => (limitStep w.head tk).map fun h => { w with head := h }
  | .tok .vars tk =>
    let h := w.hv.enter w.stmt
    (varStep w.head h.last tk).map fun (hd, l) => { w with head := hd, hv := { h with last := l } }
  | .tok .bounds tk =>
    let b := w.hb.enter w.stmt
    (boundsStep w.head b tk).map fun (hd, b') => { w with head := hd, hb := b' }
  | .tok .data tk =>
    let a := w.da.enter w.stmt
    (dataStep w.head.data a tk).map fun (d, a') => { w with head := { w.head with data := d }, da := a' }
  | .tok .graphs tk => (namesStep w.head.graphNames tk).map fun l => { w with head := { w.head with graphNames := l } }
  | .tok .outGraphs tk => (namesStep w.head.outputs tk).map fun l => { w with head := { w.head with outputs := l } }
  | .bindType k => some { w with head := { w.head with kind := k } }
  | .cInit => some { w with wcc := some {} }
  | .cNext => some { w with head := { w.head with ccs := closeClause w.head.ccs w.wcc }, wcc := some {} }
  | .cPair => w.wcc.map fun c => { w with wcc := some c.closePair }
  | .tok .cSubj tk => w.wcc.bind fun c => (cSubjStep c tk).map fun c' => { w with wcc := some c' }
  | .tok .cPred tk => w.wcc.bind fun c => c.wpair.bind fun p => (cPredStep p tk).map fun p' => { w with wcc := some { c with wpair := some p' } }
  | .tok .cObj tk => w.wcc.bind fun c => c.wpair.bind fun p => (cObjStep p tk).map fun p' => { w with wcc := some { c with wpair := some p' } }
  | .tok .subj tk =>
    let h := w.hs.enter w.stmt
    (subjStep w.working h.last tk).map fun (c, l) => { w with working := c, hs := { h with last := l } }
  | .tok .pred tk =>
    let h := w.hp.enter w.stmt
    (predStep w.working h.last tk).map fun (c, l) => { w with working := c, hp := { h with last := l } }
  | .tok .obj tk =>
    let h := w.ho.enter w.stmt
    (objStep w.working h.last tk).map fun (c, l) => { w with working := c, ho := { h with last := l } }

def wrun (w : WState) : List HEv → Option WState
  | [] => some w
  | e :: es => match wstep w e with
    | none => none
    | some w' => wrun w' es

end BW.Model.Hooks
