/-
Concurrent use of one store (C07).

`Spec`: the sequential behaviour of the driver on the operations the property names — single-triple
updates (a batch of adds is ONE step: `AddTriples` holds the write lock for the whole batch; a batch of
removes is one step per triple: `RemoveTriples` takes the lock per triple), whole look-ups, existence
tests, and the graph operations of the store.  Triples are numbers, graphs are named sets.

`search`: does a recorded concurrent history (operations with call and return stamps and the results
they returned) have a linearization — an order consistent with real time in which the sequential
behaviour gives exactly those results?  (Wing & Gong's search: repeatedly take an operation that no
other pending operation precedes in real time.)

`Locks`: the lock discipline read off memory.go by `lockfacts` — every method takes one lock and
takes no other while holding it.
-/
namespace BW.Model.Linear

inductive Kind where
  | init | add | rem1 | exist | triples | newG | getG | delG | names
  deriving DecidableEq, Repr

inductive Res where
  | ok | err | bool (b : Bool) | set (ids : List Nat) | nameSet (ns : List (List UInt8))
  deriving DecidableEq, Repr

structure HOp where
  thread : Int
  call : Nat
  ret : Nat
  kind : Kind
  graph : List UInt8
  ids : List Nat
  result : Res
  deriving DecidableEq, Repr

abbrev State := List (List UInt8 × List Nat)

def insertSorted (x : Nat) : List Nat → List Nat
  | [] => [x]
  | y :: ys => if x < y then x :: y :: ys else if x = y then y :: ys else y :: insertSorted x ys

def State.get (s : State) (g : List UInt8) : Option (List Nat) := (s.find? (·.1 == g)).map (·.2)
def State.set (s : State) (g : List UInt8) (v : List Nat) : State :=
  if s.any (·.1 == g) then s.map (fun p => if p.1 == g then (g, v) else p) else s ++ [(g, v)]

def sortNames (ns : List (List UInt8)) : List (List UInt8) :=
  ns.mergeSort (fun a b => decide (a.map (·.toNat) ≤ b.map (·.toNat)))

/-- The sequential behaviour: new state and the result the operation must have returned. -/
def step (s : State) (o : HOp) : State × Res :=
  match o.kind with
  | .init => (s.set o.graph (o.ids.foldl (fun acc x => insertSorted x acc) []), o.result)
  | .add => match s.get o.graph with
    | some v => (s.set o.graph (o.ids.foldl (fun acc x => insertSorted x acc) v), .ok)
    | none => (s, .err)
  | .rem1 => match s.get o.graph with
    | some v => (s.set o.graph (v.filter (fun x => !o.ids.contains x)), .ok)
    | none => (s, .err)
  | .exist => match s.get o.graph with
    | some v => (s, .bool (o.ids.all v.contains))
    | none => (s, .err)
  | .triples => match s.get o.graph with
    | some v => (s, .set v)
    | none => (s, .err)
  | .newG => if (s.get o.graph).isSome then (s, .err) else (s ++ [(o.graph, [])], .ok)
  | .getG => (s, if (s.get o.graph).isSome then .ok else .err)
  | .delG => if (s.get o.graph).isSome then (s.filter (·.1 != o.graph), .ok) else (s, .err)
  | .names => (s, .nameSet (sortNames (s.map (·.1))))

/-- `o` may be linearized next: no other pending operation returned before it was called. -/
def minimal (o : HOp) (pending : List HOp) : Bool := pending.all fun p => !(p.ret < o.call)

def eraseFirst (o : HOp) : List HOp → List HOp
  | [] => []
  | p :: ps => if p = o then ps else p :: eraseFirst o ps

/-- Linearization search (fuel = number of pending operations suffices). -/
def search : Nat → State → List HOp → Bool
  | _, _, [] => true
  | 0, _, _ :: _ => false
  | f + 1, s, pending =>
    pending.any fun o =>
      minimal o pending && (step s o).2 == o.result && search f (step s o).1 (eraseFirst o pending)

/-- A history has a linearization. -/
inductive Lin : State → List HOp → Prop
  | done (s : State) : Lin s []
  | pick (s : State) (pending : List HOp) (o : HOp) :
      o ∈ pending → minimal o pending = true → (step s o).2 = o.result →
      Lin (step s o).1 (eraseFirst o pending) → Lin s pending

/-! ### Lock discipline -/

structure ThreadL where
  holding : Option Nat     -- the lock held
  waiting : Option Nat     -- the lock being acquired
  finished : Bool

/-- One lock at a time: nothing is acquired while something is held. -/
def nonNested (t : ThreadL) : Prop := t.holding.isSome → t.waiting = none

/-- Whoever waits, waits for a lock that some thread holds. -/
def waitsForHeld (ts : List ThreadL) : Prop :=
  ∀ t ∈ ts, ∀ l, t.waiting = some l → ∃ h ∈ ts, h.holding = some l ∧ h.finished = false

end BW.Model.Linear
