/-
Model of `bql/grammar/parser.go` + `llk.go`: a table-driven predictive parser.

`Parser.consume` tries the alternatives of a symbol in order, takes the first whose first token
equals the current token (an *empty* alternative succeeds at once, so whatever follows it is dead),
and `Parser.expect` then matches the alternative's elements one by one, recursing into `consume`
for symbols.  The model is the equivalent push-down machine: one work stack, one step function,
structural recursion on fuel (so the kernel can evaluate it), emitting the sequence of hook events
(`ProcessStart`, `ProcessedElement`, `ProcessEnd`) in the order the Go code calls them.

`LLk` hands out `ItemEOF` forever once the lexer channel is closed: `peek [] = eof`.
-/
namespace BW.Model

inductive El (K S : Type) where
  | t (tok : K)
  | s (sym : S)
  deriving DecidableEq, Repr

structure Grammar (K S : Type) where
  rules : S → List (List (El K S))
  start : S
  eof : K

/-- Hook events, in the order `expect` raises them. `owner` is the (rule, alternative) whose
    hooks are being called. -/
inductive Ev (K S T : Type) where
  | start (s : S) (i : Nat)
  | elemTok (s : S) (i : Nat) (tok : T)
  | elemSym (owner : Option (S × Nat)) (x : S)
  | fin (s : S) (i : Nat)
  | empty (s : S) (i : Nat)   -- model-only: the empty alternative `i` of `s` was taken (no Go hook runs)
  deriving Repr

inductive Item (K S : Type) where
  | el (e : El K S) (owner : Option (S × Nat))
  | fin (s : S) (i : Nat)
  | symDone (owner : Option (S × Nat)) (x : S)

inductive PRes (K S T : Type) where
  | accept (rest : List T) (evs : List (Ev K S T))
  | reject (evs : List (Ev K S T))
  | nofuel

section
variable {K S T : Type} [DecidableEq K]

/-- Index and body of the alternative `consume` selects for current token kind `k`:
    the first alternative that is empty or starts with token `k`; `none` when an alternative
    starting with a symbol is met first ("not left factored") or no alternative applies. -/
def selectAlt (k : K) : List (List (El K S)) → Nat → Option (Nat × List (El K S))
  | [], _ => none
  | [] :: _, i => some (i, [])
  | (El.t a :: rest) :: alts, i => if k = a then some (i, El.t a :: rest) else selectAlt k alts (i + 1)
  | (El.s _ :: _) :: _, _ => none

def peekK (g : Grammar K S) (kind : T → K) : List T → K
  | [] => g.eof
  | t :: _ => kind t

/-- The parser machine. `evs` is accumulated in reverse. -/
def run (g : Grammar K S) (kind : T → K) (eofTok : T) :
    Nat → List (Item K S) → List T → List (Ev K S T) → PRes K S T
  | 0, _, _, _ => .nofuel
  | _ + 1, [], ts, evs => .accept ts evs.reverse
  | f + 1, .fin s i :: st, ts, evs => run g kind eofTok f st ts (.fin s i :: evs)
  | f + 1, .symDone o x :: st, ts, evs => run g kind eofTok f st ts (.elemSym o x :: evs)
  | f + 1, .el (.t a) o :: st, ts, evs =>
      if peekK g kind ts = a then
        let tok := ts.headD eofTok
        match o with
        | some (s, i) => run g kind eofTok f st ts.tail (.elemTok s i tok :: evs)
        | none => run g kind eofTok f st ts.tail evs
      else .reject evs.reverse
  | f + 1, .el (.s x) o :: st, ts, evs =>
      match selectAlt (peekK g kind ts) (g.rules x) 0 with
      | none => .reject evs.reverse
      | some (i, []) => run g kind eofTok f st ts (.elemSym o x :: .empty x i :: evs)
      | some (i, _ :: rest) =>
          -- the first element is the token just matched by `CanAccept`; `expect` consumes it
          let tok := ts.headD eofTok
          run g kind eofTok f
            (rest.map (fun e => Item.el e (some (x, i))) ++ (.fin x i :: .symDone o x :: st))
            ts.tail (.elemTok x i tok :: .start x i :: evs)

def parseWith (g : Grammar K S) (kind : T → K) (eofTok : T) (fuel : Nat) (ts : List T) : PRes K S T :=
  run g kind eofTok fuel [.el (.s g.start) none] ts []

/-- Fuel that always suffices when no rule mentions the end-of-input token (see `Proofs/Parser`). -/
def maxAltLen (g : Grammar K S) (syms : List S) : Nat :=
  syms.foldl (fun m s => (g.rules s).foldl (fun m a => max m a.length) m) 0

end

/-- Plain parse of a sequence of token kinds: accepted iff the machine accepts; the remaining
    input is returned so that the missing end-of-input check of `Parser.Parse` is visible. -/
def parseKinds {K S : Type} [DecidableEq K] (g : Grammar K S) (fuel : Nat) (ts : List K) : PRes K S K :=
  parseWith g id g.eof fuel ts

/-- `Parser.Parse` as a yes/no decision. `eofCheck`: after the start rule the next token must be the
    end of input (the repaired behaviour, D09); without it trailing input is silently ignored. -/
def acceptsStatement {K S : Type} [DecidableEq K] (g : Grammar K S) (eofCheck : Bool) (fuel : Nat) (ts : List K) : Bool :=
  match parseKinds g fuel ts with
  | .accept rest _ => !eofCheck || rest.isEmpty
  | _ => false

/-- The semantic parser: the same machine, whose hooks may turn an acceptance into an error. -/
def acceptsSemantic {K S : Type} [DecidableEq K] (g : Grammar K S) (hooksOk : List (Ev K S K) → Bool)
    (eofCheck : Bool) (fuel : Nat) (ts : List K) : Bool :=
  match parseKinds g fuel ts with
  | .accept rest evs => (!eofCheck || rest.isEmpty) && hooksOk evs
  | _ => false

def PRes.accepted {K S T : Type} : PRes K S T → Bool
  | .accept _ _ => true
  | _ => false

def PRes.events {K S T : Type} : PRes K S T → List (Ev K S T)
  | .accept _ evs => evs
  | .reject evs => evs
  | .nofuel => []

/-- (rule, alternative) pairs whose `ProcessStart` would fire, in order: the non-empty alternatives
    taken. -/
def firedAlts {K S T : Type} (evs : List (Ev K S T)) : List (S × Nat) :=
  evs.filterMap fun
    | .start s i => some (s, i)
    | _ => none

/-- Alternatives taken, empty ones included (model-only observation). -/
def takenAlts {K S T : Type} (evs : List (Ev K S T)) : List (S × Nat) :=
  evs.filterMap fun
    | .start s i => some (s, i)
    | .empty s i => some (s, i)
    | _ => none

def allAlts {K S : Type} (g : Grammar K S) (syms : List S) : List (S × Nat) :=
  syms.flatMap fun s => (List.range (g.rules s).length).map fun i => (s, i)


/-! ### Decidable well-formedness checks over a finite grammar table (C17) -/

section WF
variable {K S : Type} [DecidableEq K] [DecidableEq S]

def firstToks : List (List (El K S)) → List K
  | [] => []
  | (El.t a :: _) :: alts => a :: firstToks alts
  | _ :: alts => firstToks alts

def startsWithToken : List (El K S) → Bool
  | [] => true
  | El.t _ :: _ => true
  | El.s _ :: _ => false

/-- An empty alternative may only be the last one. -/
def emptyOnlyLast : List (List (El K S)) → Bool
  | [] => true
  | [_] => true
  | [] :: _ :: _ => false
  | _ :: rest => emptyOnlyLast rest

def nodupB : List K → Bool
  | [] => true
  | a :: l => !l.contains a && nodupB l

/-- Non-empty alternatives start with pairwise different tokens; at most one alternative is empty
    and it is the last one tried. -/
def altsWF (alts : List (List (El K S))) : Bool :=
  alts.all startsWithToken && nodupB (firstToks alts) && emptyOnlyLast alts

def symsOfAlt : List (El K S) → List S
  | [] => []
  | El.s x :: es => x :: symsOfAlt es
  | El.t _ :: es => symsOfAlt es

def referenced (g : Grammar K S) (s : S) : List S := (g.rules s).flatMap symsOfAlt

/-- Every referenced symbol (and the start symbol) has at least one alternative. -/
def closedB (g : Grammar K S) (syms : List S) : Bool :=
  !(g.rules g.start).isEmpty && syms.all fun s => (referenced g s).all fun x => !(g.rules x).isEmpty

/-- Reachability certificate: an enumeration of the rules starting with the start rule in which
    every later rule is referenced by an earlier one. -/
def reachGo (g : Grammar K S) : List S → List S → Bool
  | _, [] => true
  | seen, x :: xs => seen.any (fun p => (referenced g p).contains x) && reachGo g (x :: seen) xs

def reachCertOK (g : Grammar K S) (syms order : List S) : Bool :=
  (match order with
   | [] => false
   | r :: rest => r == g.start && reachGo g [r] rest)
  && syms.all fun s => order.contains s

def altProductive (prod : List S) : List (El K S) → Bool
  | [] => true
  | El.t _ :: es => altProductive prod es
  | El.s x :: es => prod.contains x && altProductive prod es

/-- Productivity certificate: an enumeration of the rules in which every rule has an alternative
    all of whose symbols occur earlier (so it derives a finite token string, by induction). -/
def prodGo (g : Grammar K S) : List S → List S → Bool
  | _, [] => true
  | seen, x :: xs => (g.rules x).any (altProductive seen) && prodGo g (x :: seen) xs

def prodCertOK (g : Grammar K S) (syms order : List S) : Bool :=
  prodGo g [] order && syms.all fun s => order.contains s

def noEofB (g : Grammar K S) (syms : List S) : Bool :=
  syms.all fun s => (g.rules s).all fun a => a.all fun e => match e with
    | El.t k => k != g.eof
    | El.s _ => true

def sameShapeB (g h : Grammar K S) (syms : List S) : Bool :=
  syms.all fun s => g.rules s == h.rules s

/-- A proposed witness `(s, i, tokens)` is good when the model parser accepts `tokens`, consuming all
    of it, taking alternative `i` of rule `s` on the way. -/
def witnessOK (g : Grammar K S) (fuel : Nat) (w : S × Nat × List K) : Bool :=
  match parseKinds g fuel w.2.2 with
  | .accept rest evs => rest.isEmpty && (takenAlts evs).contains (w.1, w.2.1)
  | _ => false

def everyAltWitnessed (g : Grammar K S) (syms : List S) (fuel : Nat) (ws : List (S × Nat × List K)) : Bool :=
  (allAlts g syms).all fun a => ws.any fun w => w.1 == a.1 && w.2.1 == a.2 && witnessOK g fuel w

end WF

end BW.Model
