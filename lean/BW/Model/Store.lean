/-
Model of `storage/memory/memory.go`: the in-memory graph with its master index and six secondary
indexes, the eleven look-ups with their options pipeline, and the store (name ↦ graph).

What the store sees of a triple is a `TView`: the SHA-1 *pre-images* that identify subject, predicate
(identifier, and kind/instant) and object, plus the printed forms it sorts by.  UUID = SHA1(pre-image);
the model identifies a UUID with its pre-image (assumption `H_sha1`: SHA-1 is injective on the
pre-images that occur — stated in DESIGN.md §6; the pre-image functions themselves are modelled in
`BW.Model.Value` and tied byte-exactly to `UUID()` by the `values` correspondence).

Go maps are modelled as functions / duplicate-free lists; nothing observable depends on map order
(every look-up sorts by `String()`).  Which indexes `AddTriples` writes, `RemoveTriples` deletes from
and each look-up reads is *data* (`Facts`), regenerated from memory.go's AST on every run.
-/
namespace BW.Model

abbrev Bytes := List UInt8

/-- Instants are unbounded integers (nanoseconds since the Unix epoch). -/
abbrev Instant := Int

/-- `time.Time.UnixNano` wraps to 64 bits; `Predicate.UUID` hashes that value. -/
def wrap64 (n : Int) : Int := n % 18446744073709551616

structure TView where
  id : Nat := 0                 -- identity of the Go value in the harness universe (printing only)
  ks : Bytes                    -- pre-image of Subject().UUID()
  pid : Bytes                   -- pre-image of Predicate().PartialUUID(): the predicate identifier
  pnano : Option Instant        -- none: immutable; some t: temporal, anchored at t
  ko : Bytes                    -- pre-image of Object().UUID()
  opred : Option (Bytes × Option Instant) := none  -- the object is a predicate: (identifier, anchor)
  pstr : Bytes := []            -- Predicate().String()
  str : Bytes := []             -- Triple.String(): what look-ups sort by
  sstr : Bytes := []            -- Subject().String()
  ostr : Bytes := []            -- Object().String()
  deriving DecidableEq, Repr

/-- Identity of a stored triple: what `Triple.UUID()` hashes, up to SHA-1. -/
abbrev TKey := Bytes × Bytes × Option Int × Bytes

def TView.key (t : TView) : TKey := (t.ks, t.pid, t.pnano.map wrap64, t.ko)

inductive IdxName | S | P | O | SP | PO | SO
  deriving DecidableEq, Repr

inductive KeyPart | s | p | o
  deriving DecidableEq, Repr

def KeyPart.of (t : TView) : KeyPart → Bytes
  | .s => t.ks
  | .p => t.pid
  | .o => t.ko

/-- A secondary-index key: the concatenation of fixed-width UUIDs, i.e. the list of its parts. -/
def keyOf (parts : List KeyPart) (t : TView) : List Bytes := parts.map (KeyPart.of t)

structure Touch where
  idx : IdxName
  parts : List KeyPart
  deriving DecidableEq, Repr

inductive Method
  | objects | subjects | predsForSO | predsForS | predsForO
  | triplesForS | triplesForP | triplesForO | triplesForSP | triplesForPO | triples
  deriving DecidableEq, Repr

/-- What memory.go does, as data (regenerated from its AST: `BW.Generated.MemoryFacts`). -/
structure Facts where
  addT : List Touch                 -- index writes of AddTriples (besides the master index)
  remT : List Touch                 -- index deletes of RemoveTriples (besides the master index)
  read : Method → Option Touch      -- bucket a look-up reads (none: the master index)
  usesPred : Method → Bool          -- the query predicate is handed to the checker (`newChecker(lo, p)`)
  filterPred : Method → Bool        -- … and to the filter functions (`executeFilter(_, p, _)`)
  addMaster : Bool                  -- AddTriples writes the master index
  remMaster : Bool                  -- RemoveTriples deletes from the master index

structure Graph where
  master : List TView
  sec : IdxName → List Bytes → List TView

def Graph.empty : Graph := { master := [], sec := fun _ _ => [] }

def touches (ts : List Touch) (n : IdxName) (bk : List Bytes) (t : TView) : Bool :=
  ts.any fun tc => tc.idx == n && keyOf tc.parts t == bk

/-- One iteration of the `AddTriples` loop. -/
def Graph.add1 (F : Facts) (g : Graph) (t : TView) : Graph where
  master := if F.addMaster then t :: g.master.filter (fun x => x.key != t.key) else g.master
  sec := fun n bk =>
    if touches F.addT n bk t then t :: (g.sec n bk).filter (fun x => x.key != t.key) else g.sec n bk

/-- One iteration of the `RemoveTriples` loop. -/
def Graph.rem1 (F : Facts) (g : Graph) (t : TView) : Graph where
  master := if F.remMaster then g.master.filter (fun x => x.key != t.key) else g.master
  sec := fun n bk =>
    if touches F.remT n bk t then (g.sec n bk).filter (fun x => x.key != t.key) else g.sec n bk

def Graph.addAll (F : Facts) (g : Graph) (ts : List TView) : Graph := ts.foldl (Graph.add1 F) g
def Graph.remAll (F : Facts) (g : Graph) (ts : List TView) : Graph := ts.foldl (Graph.rem1 F) g

def Graph.exist (g : Graph) (t : TView) : Bool := g.master.any fun x => x.key == t.key

/-! ### Look-up options and the checker -/

inductive FilterOp | latest | isImmutable | isTemporal | unknown
  deriving DecidableEq, Repr
inductive FilterField | subject | predicate | object | unknown
  deriving DecidableEq, Repr

structure FilterOpts where
  op : FilterOp
  field : FilterField
  deriving DecidableEq, Repr

structure LookupOpts where
  maxElements : Int := 0
  offset : Int := 0
  lower : Option Instant := none
  upper : Option Instant := none
  latestAnchor : Bool := false
  filter : Option FilterOpts := none
  deriving DecidableEq, Repr

/-- A predicate handed to a look-up. -/
structure PQ where
  pid : Bytes
  pnano : Option Instant
  pstr : Bytes := []
  deriving DecidableEq, Repr

def PQ.matchesKey (q : PQ) (t : TView) : Bool := q.pid == t.pid && q.pnano.map wrap64 == t.pnano.map wrap64

/-- `checker.CheckGlobalTimeBounds`, with the query predicate's kind and anchor. -/
def checkBounds (q : Option PQ) (lo : LookupOpts) (t : TView) : Bool :=
  (match q with
   | none => true
   | some q => q.pnano.isSome == t.pnano.isSome) &&
  match t.pnano with
  | none => true
  | some a =>
    (match q with
     | some ⟨_, some qa, _⟩ => qa == a
     | _ => true) &&
    (match lo.lower with | some l => !(a < l) | none => true) &&
    (match lo.upper with | some u => !(a > u) | none => true)

/-- The predicate a filter looks at: the triple's own, or its predicate-valued object. -/
def filterPred (f : FilterField) (t : TView) : Option (Bytes × Option Instant) :=
  match f with
  | .predicate => some (t.pid, t.pnano)
  | .object => t.opred
  | _ => none

inductive LErr | latestWithFilter | badField | badOp
  deriving DecidableEq, Repr

def filterQueryOk (q : Option PQ) (t : TView) : Bool :=
  match q with
  | none => true
  | some q => q.matchesKey t

/-- `latestFilter`: per predicate identifier keep the temporal candidates with the greatest anchor. -/
def latestOf (f : FilterField) (cands : List TView) : List TView :=
  cands.filter fun t =>
    match filterPred f t with
    | some (pid, some a) =>
      cands.all fun u =>
        match filterPred f u with
        | some (pid', some a') => !(pid' == pid) || !(a < a')
        | _ => true
    | _ => false

def executeFilter (q : Option PQ) (fo : FilterOpts) (sel : List TView) : Except LErr (List TView) :=
  match fo.op with
  | .unknown => .error .badOp
  | op =>
    if fo.field != .predicate && fo.field != .object then .error .badField else
    let cands := sel.filter (filterQueryOk q)
    match op with
    | .isImmutable => .ok (cands.filter fun t => match filterPred fo.field t with | some (_, none) => true | _ => false)
    | .isTemporal => .ok (cands.filter fun t => match filterPred fo.field t with | some (_, some _) => true | _ => false)
    | _ => .ok (latestOf fo.field cands)

def bytesLe : Bytes → Bytes → Bool
  | [], _ => true
  | _ :: _, [] => false
  | a :: as, b :: bs => a < b || (a == b && bytesLe as bs)

def sortByStr (l : List TView) : List TView := l.mergeSort fun a b => bytesLe a.str b.str

/-- State of `checker` relevant to paging. -/
structure Pager where
  max : Bool
  pageSize : Int
  padded : Int

def Pager.new (lo : LookupOpts) : Pager :=
  { max := decide (lo.maxElements > 0), pageSize := lo.maxElements, padded := lo.maxElements * lo.offset }

/-- `CheckLimitAndUpdate`. -/
def Pager.step (c : Pager) : Bool × Pager :=
  if c.max && decide (c.pageSize ≤ 0) then (false, c)
  else if c.padded > 0 then (false, { c with padded := c.padded - 1 })
  else (true, { c with pageSize := c.pageSize - 1 })

def emit : Pager → List TView → List TView
  | _, [] => []
  | c, t :: ts =>
    let (b, c') := c.step
    -- `t != ""` in the Go loop: a triple never prints as the empty string
    if b then t :: emit c' ts else emit c' ts

/-- The common body of the eleven look-ups, from the selected bucket on. -/
def pipeline (q qf : Option PQ) (lo : LookupOpts) (bucket : List TView) : Except LErr (List TView) := do
  let sel := bucket.filter (checkBounds q lo)
  let fo ← if lo.latestAnchor then
      (if lo.filter.isSome then .error .latestWithFilter else pure (some ⟨.latest, .predicate⟩))
    else pure lo.filter
  let sel ← match fo with
    | some fo => executeFilter qf fo sel
    | none => pure sel
  pure (emit (Pager.new lo) (sortByStr sel))

/-- Arguments of a look-up: the fixed components. -/
structure LArgs where
  s : Bytes := []
  p : Option PQ := none
  o : Bytes := []

def LArgs.part (a : LArgs) : KeyPart → Bytes
  | .s => a.s
  | .p => (a.p.map (·.pid)).getD []
  | .o => a.o

def Graph.bucket (F : Facts) (g : Graph) (m : Method) (a : LArgs) : List TView :=
  match F.read m with
  | none => g.master
  | some tc => g.sec tc.idx (tc.parts.map a.part)

def Graph.lookup (F : Facts) (g : Graph) (m : Method) (a : LArgs) (lo : LookupOpts) : Except LErr (List TView) :=
  pipeline (if F.usesPred m then a.p else none) (if F.filterPred m then a.p else none) lo (g.bucket F m a)

/-! ### The store -/

abbrev Store := List (Bytes × Graph)

def Store.get (s : Store) (n : Bytes) : Option Graph := (s.find? (·.1 == n)).map (·.2)

def Store.newGraph (s : Store) (n : Bytes) : Option Store :=
  if (s.get n).isSome then none else some ((n, Graph.empty) :: s)

def Store.deleteGraph (s : Store) (n : Bytes) : Option Store :=
  if (s.get n).isSome then some (s.filter (·.1 != n)) else none

def Store.names (s : Store) : List Bytes := s.map (·.1)

def Store.update (s : Store) (n : Bytes) (f : Graph → Graph) : Store :=
  s.map fun p => if p.1 == n then (p.1, f p.2) else p

/-! ### Histories: one operation at a time, observed after every step -/

inductive Op where
  | newGraph (n : Bytes)
  | getGraph (n : Bytes)
  | deleteGraph (n : Bytes)
  | names
  | add (n : Bytes) (ts : List TView)
  | rem (n : Bytes) (ts : List TView)
  | exist (n : Bytes) (t : TView)
  | lookup (n : Bytes) (m : Method) (a : LArgs) (lo : LookupOpts)

inductive Out where
  | ok
  | err
  | names (l : List Bytes)
  | bool (b : Bool)
  | elems (r : Except LErr (List TView))

def Store.step (F : Facts) (s : Store) : Op → Store × Out
  | .newGraph n => match s.newGraph n with
    | some s' => (s', .ok)
    | none => (s, .err)
  | .getGraph n => (s, if (s.get n).isSome then .ok else .err)
  | .deleteGraph n => match s.deleteGraph n with
    | some s' => (s', .ok)
    | none => (s, .err)
  | .names => (s, .names s.names)
  | .add n ts => if (s.get n).isSome then (s.update n (·.addAll F ts), .ok) else (s, .err)
  | .rem n ts => if (s.get n).isSome then (s.update n (·.remAll F ts), .ok) else (s, .err)
  | .exist n t => match s.get n with
    | some g => (s, .bool (g.exist t))
    | none => (s, .err)
  | .lookup n m a lo => match s.get n with
    | some g => (s, .elems (g.lookup F m a lo))
    | none => (s, .err)

def Store.run (F : Facts) (s : Store) : List Op → Store × List Out
  | [] => (s, [])
  | op :: ops =>
    let (s', o) := s.step F op
    let (s'', os) := Store.run F s' ops
    (s'', o :: os)

/-- memory.go as read by hand; the regenerated `BW.Generated.memoryFacts` must equal this for the
    unchanged tree, and the theorems only need `Facts.WF`. -/
def Facts.reference : Facts where
  addT := [⟨.S, [.s]⟩, ⟨.P, [.p]⟩, ⟨.O, [.o]⟩, ⟨.SP, [.s, .p]⟩, ⟨.PO, [.p, .o]⟩, ⟨.SO, [.s, .o]⟩]
  remT := [⟨.S, [.s]⟩, ⟨.P, [.p]⟩, ⟨.O, [.o]⟩, ⟨.SP, [.s, .p]⟩, ⟨.PO, [.p, .o]⟩, ⟨.SO, [.s, .o]⟩]
  read := fun
    | .objects => some ⟨.SP, [.s, .p]⟩
    | .subjects => some ⟨.PO, [.p, .o]⟩
    | .predsForSO => some ⟨.SO, [.s, .o]⟩
    | .predsForS => some ⟨.S, [.s]⟩
    | .predsForO => some ⟨.O, [.o]⟩
    | .triplesForS => some ⟨.S, [.s]⟩
    | .triplesForP => some ⟨.P, [.p]⟩
    | .triplesForO => some ⟨.O, [.o]⟩
    | .triplesForSP => some ⟨.SP, [.s, .p]⟩
    | .triplesForPO => some ⟨.PO, [.p, .o]⟩
    | .triples => none
  usesPred := fun
    | .objects | .subjects | .triplesForP | .triplesForSP | .triplesForPO => true
    | _ => false
  filterPred := fun
    | .objects | .subjects | .triplesForP | .triplesForSP | .triplesForPO => true
    | _ => false
  addMaster := true
  remMaster := true

end BW.Model
