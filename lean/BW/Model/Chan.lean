/-
A look-up of the memory driver holds the graph's read lock while it SENDS its results on the caller's
channel (lockfacts: read lock, scope whole). Model of one graph lock (Go's sync.RWMutex: a reader is
admitted only when no writer holds the lock or WAITS for it), one look-up of `n` results, its consumer —
which, after each result it receives, does `b` read operations (Exist) on the same graph — and one writer.
The lock's state is derived from the threads' states.
-/
namespace BW.Model.Chan

inductive P where            -- the look-up goroutine
  | idle | sending (k : Nat) | done
  deriving DecidableEq, Repr

inductive C where            -- the consumer: `for x := range ch { b × Exist }`
  | waitRecv | wantRead (r : Nat) | inRead (r : Nat) | done
  deriving DecidableEq, Repr

inductive W where            -- a writer (AddTriples / RemoveTriples)
  | idle | pending | holding | done
  deriving DecidableEq, Repr

structure Sys where
  n : Nat        -- results of the look-up
  b : Nat        -- reads of the same graph the consumer does per result
  p : P
  c : C
  w : W
  deriving DecidableEq, Repr

def Sys.readers (s : Sys) : Nat :=
  (match s.p with | .sending _ => 1 | _ => 0) + (match s.c with | .inRead _ => 1 | _ => 0)
def Sys.writerHolds (s : Sys) : Bool := s.w == .holding
def Sys.writerWaits (s : Sys) : Bool := s.w == .pending
/-- RLock is granted: no writer holds the lock and none waits for it. -/
def Sys.canRead (s : Sys) : Bool := !s.writerHolds && !s.writerWaits
/-- Lock is granted. -/
def Sys.canWrite (s : Sys) : Bool := s.readers == 0 && !s.writerHolds

inductive Tid where | p | c | w
  deriving DecidableEq, Repr

/-- One step of thread `t`; `none` when it is blocked or has finished. -/
def step (s : Sys) : Tid → Option Sys
  | .p => match s.p with
    | .idle => if s.canRead then some { s with p := .sending s.n } else none  -- RLock
    | .sending 0 => some { s with p := .done }                                -- RUnlock, close
    | .sending (k+1) => match s.c with                                        -- a send needs the receiver
        | .waitRecv => some { s with p := .sending k, c := if s.b = 0 then .waitRecv else .wantRead s.b }
        | _ => none
    | .done => none
  | .c => match s.c with
    | .waitRecv => if s.p = .done then some { s with c := .done } else none   -- the closed channel ends the loop
    | .wantRead r => if s.canRead then some { s with c := .inRead r } else none
    | .inRead r => some { s with c := if r ≤ 1 then .waitRecv else .wantRead (r - 1) }
    | .done => none
  | .w => match s.w with
    | .idle => some { s with w := .pending }                                  -- Lock announced
    | .pending => if s.canWrite then some { s with w := .holding } else none
    | .holding => some { s with w := .done }
    | .done => none

def start (n b : Nat) : Sys := ⟨n, b, .idle, .waitRecv, .idle⟩

def run (s : Sys) : List Tid → Sys
  | [] => s
  | t :: ts => run ((step s t).getD s) ts

def Sys.finished (s : Sys) : Bool := s.p == .done && s.c == .done && s.w == .done
def Sys.stuck (s : Sys) : Bool := (step s .p).isNone && (step s .c).isNone && (step s .w).isNone

/-- Is a halted, unfinished state reachable? Exhaustive search of the (finite) state space; `fuel` bounds the
    number of rounds, each round advancing every state of the frontier by every thread. -/
def successors (s : Sys) : List Sys := [Tid.p, Tid.c, Tid.w].filterMap (step s)

def canHalt : Nat → List Sys → Bool
  | 0, _ => false
  | fuel + 1, frontier =>
    frontier.any (fun s => s.stuck && !s.finished) ||
      canHalt fuel (frontier.flatMap successors).eraseDups

end BW.Model.Chan
