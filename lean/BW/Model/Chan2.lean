import BW.Model.Chan
/-
Two locks: the store's and a graph's. A look-up of `n` results sends under the graph's read lock; its consumer uses
the STORE between two results (Graph / GraphNames / NewGraph: the store's lock, taken and released at once); a third
goroutine drops the graph (`DeleteGraph`: the store's lock — and, with `nested`, the graph's lock while holding it,
which is what lockfacts' "locks nothing but its receiver's mutex" excludes).
-/
namespace BW.Model.Chan2
open BW.Model.Chan (P)

inductive C where
  | waitRecv | wantStore | done
  deriving DecidableEq, Repr

inductive D where            -- DeleteGraph
  | idle | holding | done
  deriving DecidableEq, Repr

structure Sys where
  n : Nat
  nested : Bool
  p : P
  c : C
  d : D
  deriving DecidableEq, Repr

inductive Tid where | p | c | d
  deriving DecidableEq, Repr

def step (s : Sys) : Tid → Option Sys
  | .p => match s.p with
    | .idle => some { s with p := .sending s.n }                       -- RLock of the graph (no graph writer around)
    | .sending 0 => some { s with p := .done }
    | .sending (k+1) => match s.c with
        | .waitRecv => some { s with p := .sending k, c := .wantStore }
        | _ => none
    | .done => none
  | .c => match s.c with
    | .waitRecv => if s.p = .done then some { s with c := .done } else none
    | .wantStore => if s.d = .holding then none else some { s with c := .waitRecv }   -- the store's lock, at once
    | .done => none
  | .d => match s.d with
    | .idle => some { s with d := .holding }                           -- the store's lock (nobody holds it across steps)
    | .holding =>
      if s.nested then
        -- waits for the graph's lock while holding the store's
        (match s.p with
         | .sending _ => none
         | _ => some { s with d := .done })
      else some { s with d := .done }
    | .done => none

def start (n : Nat) (nested : Bool) : Sys := ⟨n, nested, .idle, .waitRecv, .idle⟩

def run (s : Sys) : List Tid → Sys
  | [] => s
  | t :: ts => run ((step s t).getD s) ts

def Sys.finished (s : Sys) : Bool := s.p == .done && s.c == .done && s.d == .done
def Sys.stuck (s : Sys) : Bool := (step s .p).isNone && (step s .c).isNone && (step s .d).isNone

end BW.Model.Chan2
