/-
Model of the stages after the graph pattern: `table.CompareCells` / `rowLess` / `Table.Sort`
(ORDER BY), `Table.Reduce` with its accumulators (GROUP BY), the HAVING evaluator
(`semantic/expression.go`) and `Table.Limit`, in the order `queryPlan.Execute` runs them.

Printed forms that the Go code sorts or groups by (`Predicate.String()`, time formatting, `%v` of a
float64) are not re-implemented: the harness supplies them (`Strs`), from the universe of the run.
-/
import BW.Model.Query

namespace BW.Model

/-- Printed forms supplied by the harness. -/
structure Strs where
  pred : Pred → Bytes
  time : Time → Bytes
  lit : Lit → Bytes        -- Literal.String()

def nodeStr (n : Node) : Bytes := n.ty ++ [60] ++ n.id ++ [62]

def asciiSpace (b : UInt8) : Bool := b == 32 || b == 9 || b == 10 || b == 13 || b == 11 || b == 12

def trimSpace (s : Bytes) : Bytes := ((s.dropWhile asciiSpace).reverse.dropWhile asciiSpace).reverse

def bytesCmp : Bytes → Bytes → Ordering
  | [], [] => .eq
  | [], _ :: _ => .lt
  | _ :: _, [] => .gt
  | a :: as, b :: bs => if a < b then .lt else if a > b then .gt else bytesCmp as bs

def cmpStr (a b : Bytes) : Ordering := bytesCmp (trimSpace a) (trimSpace b)

/-- IEEE-754 binary64 order on bit patterns (no NaNs among the generated values): sign-magnitude. -/
def floatKey (bits : Nat) : Int :=
  let mag : Int := (bits % 9223372036854775808 : Nat)
  if bits ≥ 9223372036854775808 then -mag else mag

def cellStr (S : Strs) : Cell → Bytes
  | .node n => nodeStr n
  | .pred p => S.pred p
  | .lit l => S.lit l
  | .time t => S.time t
  | .str s => s
  | .null => [60, 78, 85, 76, 76, 62]   -- <NULL>

/-- `table.CompareCells`: `none` when the cells hold values of different kinds. -/
def compareCells (S : Strs) : Cell → Cell → Option Ordering
  | .str a, .str b => some (cmpStr a b)
  | .node a, .node b => some (cmpStr (nodeStr a) (nodeStr b))
  | .pred a, .pred b => some (cmpStr (S.pred a) (S.pred b))
  | .time a, .time b => some (compare a.nanos b.nanos)
  | .lit (.int a), .lit (.int b) => some (compare a b)
  | .lit (.float a), .lit (.float b) => some (compare (floatKey a) (floatKey b))
  | .lit (.text a), .lit (.text b) => some (bytesCmp a b)
  | .lit (.bool a), .lit (.bool b) => some (cmpStr (S.lit (.bool a)) (S.lit (.bool b)))
  | .lit (.blob a), .lit (.blob b) => some (cmpStr (S.lit (.blob a)) (S.lit (.blob b)))
  | _, _ => none

def flipOrd : Ordering → Ordering
  | .lt => .gt
  | .gt => .lt
  | .eq => .eq

/-- `rowLess` as a three-way comparison over the sort configuration. A row lacking the binding
    compares as equal. -/
def keyOrd (S : Strs) (k : Bytes) (desc : Bool) (a b : Row) : Ordering :=
  let o := match a.get k, b.get k with
    | some x, some y => (compareCells S x y).getD .eq
    | _, _ => .eq
  if desc then flipOrd o else o

def compareRows (S : Strs) : List (Bytes × Bool) → Row → Row → Ordering
  | [], _, _ => .eq
  | (k, desc) :: rest, a, b =>
    match keyOrd S k desc a b with
    | .eq => compareRows S rest a b
    | o => o

def rowLe (S : Strs) (cfg : List (Bytes × Bool)) (a b : Row) : Bool := compareRows S cfg a b != .gt

/-- `Table.Sort` (the model's sort is stable; Go's is not: ties are canonicalised before comparing). -/
def sortRows (S : Strs) (cfg : List (Bytes × Bool)) (rows : List Row) : List Row :=
  if cfg.isEmpty then rows else rows.mergeSort (rowLe S cfg)

/-! ### GROUP BY -/

/-- `Cell.valueKey`: the text GROUP BY and COUNT(DISTINCT) identify a value by — `String()`, except that
    anchors are written in UTC, i.e. identified by their instant. -/
def cellKey (S : Strs) : Cell → Bytes
  | .time t => 84 :: intBytes t.nanos
  | .pred (.tmp i t) => 80 :: (lp i ++ intBytes t.nanos)
  | c => 79 :: cellStr S c

def groupId (S : Strs) (keys : List Bytes) (r : Row) : List Bytes :=
  keys.map fun k => cellKey S ((r.get k).getD .null)

/-- Gather rows by group id, groups in the order of their first row. -/
def gather (S : Strs) (keys : List Bytes) (rows : List Row) : List (List Row) :=
  let ids := (rows.map (groupId S keys)).foldl (fun acc i => if acc.contains i then acc else acc ++ [i]) []
  ids.map fun i => rows.filter fun r => groupId S keys r == i

def distinctCount (S : Strs) (cells : List Cell) : Nat :=
  ((cells.map (cellKey S)).foldl (fun acc s => if acc.contains s then acc else s :: acc) []).length

def inInt64 (n : Int) : Bool := decide (-9223372036854775808 ≤ n ∧ n ≤ 9223372036854775807)

/-- The int64 cells of a column, or the error of the first cell that is none. -/
def intCells (cells : List Cell) : Except QErr (List Int) :=
  cells.mapM fun c => match c with
    | .lit (.int b) => .ok b
    | _ => .error .sumNotNumber

/-- `sumInt64.Accumulate` over a group: the sum is kept exactly (math/big) and the group fails when the TOTAL is not
    an int64 (4abc0e2; 09a61fb failed on the first running sum that left int64, which depends on the order of the
    rows; the pinned tree wrapped). Written as the loop of the code: the exact running sum, looked at once at the end. -/
def sumEngine (xs : List Int) : Except QErr Int :=
  let total := xs.foldl (fun acc b => acc + b) 0
  if inInt64 total then .ok total else .error .sumOverflow

/-- The arithmetic sum as the reference defines it: the positive and the negative values summed apart. -/
def sumExact (xs : List Int) : Except QErr Int :=
  let pos := (xs.filter (· > 0)).foldl (· + ·) 0
  let neg := (xs.filter (· < 0)).foldl (· + ·) 0
  if inInt64 (pos + neg) then .ok (pos + neg) else .error .sumOverflow

/-- What an aggregate yields on a group. `intSum`: how int64 values are summed (the engine's accumulator for
    the planner model, the arithmetic sum for the reference); `floatAdd` is IEEE addition on bits, supplied by
    the driver. -/
def aggregateWith (intSum : List Int → Except QErr Int) (S : Strs) (floatAdd : Nat → Nat → Nat) (first : Row) (p : Proj)
    (grp : List Row) : Except QErr Cell :=
  let cells := grp.map fun r => (r.get p.binding).getD .null
  match p.op with
  | .none => .ok (cells.headD .null)
  | .count => .ok (.lit (.int (if p.distinct then distinctCount S cells else cells.length)))
  | .sum =>
    -- the accumulator is chosen from the first row of the whole table
    match first.get p.binding with
    | some (.lit (.int _)) => (intCells cells >>= intSum).map fun v => .lit (.int v)
    | some (.lit (.float _)) =>
      cells.foldlM (fun acc c => match acc, c with
        | .lit (.float a), .lit (.float b) => .ok (.lit (.float (floatAdd a b)))
        | _, _ => .error .sumNotNumber) (.lit (.float 0))
    | _ => .error .sumNotNumber

/-- The engine's aggregate. -/
def aggregate := @aggregateWith sumEngine

/-- `projectAndGroupBy` with GROUP BY: one row per group. -/
def groupReduceWith (intSum : List Int → Except QErr Int) (S : Strs) (floatAdd : Nat → Nat → Nat) (st : Stmt) (rows : List Row) :
    Except QErr (List Row) :=
  if rows.isEmpty then .ok [] else
  let keys := dedup ((st.projs.filter fun p => st.groupBy.contains p.out).map (·.binding))
  let sorted := sortRows S (keys.map fun k => (k, false)) rows
  (gather S keys sorted).mapM fun grp =>
    st.projs.foldlM (fun row p => do
      let c ← aggregateWith intSum S floatAdd (rows.headD []) p grp
      pure (row.set p.out c)) []

def groupReduce := @groupReduceWith sumEngine

/-! ### HAVING -/

inductive HOp | lt | gt | eq
  deriving DecidableEq, Repr

/-- Tokens of the HAVING expression as collected by the hook, constants already parsed by Go's own
    parsers (the harness ships the parsed value; `bad` when Go's parser rejects the text). -/
inductive HTok where
  | binding (b : Bytes)
  | op (o : HOp)
  | not | and | or | lpar | rpar
  | lit (l : Option Lit)
  | node (n : Option Node)
  | time (t : Option Time)
  | pred (text : Bytes)
  | other
  deriving Repr

inductive HExpr where
  | cmpBinding (o : HOp) (l r : Bytes)
  | cmpLit (o : HOp) (l : Bytes) (c : Option Lit)
  | cmpNode (o : HOp) (l : Bytes) (n : Option Node)
  | cmpTime (o : HOp) (l : Bytes) (t : Option Time)
  | cmpPred (o : HOp) (l : Bytes) (text : Bytes)
  | not (e : HExpr)
  | and (a b : HExpr)
  | or (a b : HExpr)
  deriving Repr

/-- `internalNewEvaluator`: returns the expression and the left-over tokens. -/
def buildH : Nat → List HTok → Option (HExpr × List HTok)
  | 0, _ => none
  | _ + 1, [] => none
  | f + 1, .not :: tail => (buildH f tail).map fun (e, rest) => (.not e, rest)
  | _ + 1, .binding l :: .op o :: x :: rest =>
    match x with
    | .binding r => some (.cmpBinding o l r, rest)
    | .lit c => some (.cmpLit o l c, rest)
    | .node n => some (.cmpNode o l n, rest)
    | .time t => some (.cmpTime o l t, rest)
    | .pred t => some (.cmpPred o l t, rest)
    | _ => none
  | f + 1, .lpar :: tail =>
    match buildH f tail with
    | some (e, .rpar :: rest) =>
      (match rest with
       | t1 :: t2 :: more =>
         let bop : Option Bool := match t1 with | .and => some true | .or => some false | _ => none
         (match bop with
          | none => none
          | some isAnd =>
            (buildH f (t2 :: more)).map fun (e2, rest2) => ((if isAnd then .and e e2 else .or e e2), rest2))
       | _ => some (e, rest))
    | _ => none
  | _ + 1, _ => none

/-- `NewEvaluator`: everything must be consumed (a single trailing `)` is tolerated). -/
def newEvaluator (toks : List HTok) : Option HExpr :=
  match buildH (toks.length + 1) toks with
  | some (e, []) => some e
  | some (e, [.rpar]) => some e
  | _ => none

def applyOp (o : HOp) (c : Ordering) : Bool :=
  match o with
  | .eq => c == .eq
  | .lt => c == .lt
  | .gt => c == .gt

/-- String cells (extracted ids and types) compare as text literals do. -/
def comparableCell : Cell → Cell
  | .str s => .lit (.text s)
  | c => c

inductive HErr | missingBinding | badConstant | stringVsNonText | unsupportedOp
  deriving DecidableEq, Repr

/-- Evaluation of a HAVING expression on a row. -/
def evalH (S : Strs) (r : Row) : HExpr → Except HErr Bool
  | .cmpBinding o l rb =>
    match r.get l, r.get rb with
    | some a, some b =>
      (match compareCells S (comparableCell a) (comparableCell b) with
       | some c => .ok (applyOp o c)
       | none => .ok false)
    | _, _ => .error .missingBinding
  | .cmpLit o l c =>
    match r.get l with
    | none => .error .missingBinding
    | some a =>
      (match a with
       | .lit _ | .str _ =>
         (match c with
          | none => .error .badConstant
          | some lit =>
            (match a, lit with
             | .str _, .text _ => .ok ()
             | .str _, _ => .error .stringVsNonText
             | _, _ => .ok ()) >>= fun _ =>
            (match compareCells S (comparableCell a) (.lit lit) with
             | some ord => .ok (applyOp o ord)
             | none => .ok false))
       | _ => .ok false)
  | .cmpNode o l n =>
    match r.get l with
    | none => .error .missingBinding
    | some (.str _) => .error .stringVsNonText
    | some (.node a) => if o == .eq then .ok (some a == n) else .error .unsupportedOp
    | some _ => .ok false
  | .cmpTime o l t =>
    match r.get l with
    | none => .error .missingBinding
    | some (.str _) => .error .stringVsNonText
    | some (.time a) =>
      (match t with
       | none => .error .badConstant
       | some b => .ok (applyOp o (compare a.nanos b.nanos)))
    | some _ => .ok false
  | .cmpPred o l text =>
    match r.get l with
    | none => .error .missingBinding
    | some (.str _) => .error .stringVsNonText
    | some (.pred p) => if o == .eq then .ok (trimSpace (S.pred p) == trimSpace text) else .error .unsupportedOp
    | some _ => .ok false
  | .not e => (evalH S r e).map (!·)
  | .and a b => do
    let x ← evalH S r a
    if !x then pure false else evalH S r b
  | .or a b => do
    let x ← evalH S r a
    if x then pure true else evalH S r b

/-- The HAVING stage: rows for which the expression is true are kept, unchanged and in order; an
    evaluation error on any row fails the query. -/
def havingFilter (S : Strs) (e : HExpr) : List Row → Except HErr (List Row)
  | [] => .ok []
  | r :: rs =>
    match evalH S r e with
    | .error x => .error x
    | .ok b =>
      match havingFilter S e rs with
      | .error x => .error x
      | .ok out => .ok (if b then r :: out else out)

/-! ### The stages after the projection, in `queryPlan.Execute`'s order -/

/-- ORDER BY, then HAVING, then LIMIT (`Generated.executeStages`: orderBy, having, limit): LIMIT cuts what HAVING
    keeps of the sorted rows. -/
def postStages (S : Strs) (order : List (Bytes × Bool)) (having : Option HExpr) (limit : Option Int) (rows : List Row) :
    Except HErr (List Row) :=
  let sorted := sortRows S order rows
  let kept := match having with
    | some e => havingFilter S e sorted
    | none => .ok sorted
  kept.map fun rows => match limit with
    | some n => limitRows n rows
    | none => rows

end BW.Model
