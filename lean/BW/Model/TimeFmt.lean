import BW.Model.Value

/-!
`Time.Format(time.RFC3339Nano)` — `2006-01-02T15:04:05.999999999Z07:00` — as a function of the instant and the zone
offset, for years 0..9999: the proleptic Gregorian calendar (days → civil date), the fraction without trailing
zeros, `Z` for offset 0 and `±hh:mm` otherwise. Used for the printed forms of predicates and anchors the harness does
not hand over (values that only exist because a statement wrote them); every printed form the harness does hand over
is compared with this function by the drivers (`T mismatch`).
-/
namespace BW.Model.TimeFmt
open BW.Model

def digits (width : Nat) (n : Nat) : Bytes :=
  let s := (Nat.toDigits 10 n).map fun c => c.toNat.toUInt8
  List.replicate (width - s.length) 48 ++ s

/-- Days since 1970-01-01 → (year, month, day). -/
def civil (days : Int) : Int × Nat × Nat :=
  let z := days + 719468
  let era := z / 146097
  let doe := (z % 146097).toNat
  let yoe := (doe - doe / 1460 + doe / 36524 - doe / 146096) / 365
  let doy := doe - (365 * yoe + yoe / 4 - yoe / 100)
  let mp := (5 * doy + 2) / 153
  let d := doy - (153 * mp + 2) / 5 + 1
  let m := if mp < 10 then mp + 3 else mp - 9
  let y := (yoe : Int) + era * 400
  (if m ≤ 2 then y + 1 else y, m, d)

def fraction (ns : Nat) : Bytes :=
  if ns = 0 then [] else
  let ds := digits 9 ns
  46 :: (ds.reverse.dropWhile (· == 48)).reverse

def zone (off : Int) : Bytes :=
  if off = 0 then [90] else
  let a := off.natAbs
  (if off < 0 then 45 else 43) :: (digits 2 (a / 3600) ++ [58] ++ digits 2 (a % 3600 / 60))

def rfc3339Nano (t : Time) : Bytes :=
  let loc := t.nanos + t.off * 1000000000
  let secs := loc / 1000000000
  let ns := (loc % 1000000000).toNat
  let days := secs / 86400
  let sod := (secs % 86400).toNat
  let (y, m, d) := civil days
  digits 4 y.toNat ++ [45] ++ digits 2 m ++ [45] ++ digits 2 d ++ [84] ++
    digits 2 (sod / 3600) ++ [58] ++ digits 2 (sod % 3600 / 60) ++ [58] ++ digits 2 (sod % 60) ++ fraction ns ++ zone t.off

/-- The instants RFC 3339 as Go prints it can write: the year, in the anchor's own zone, has four digits and the zone
    offset is a whole number of minutes. (Go prints
    `9999-12-31T23:59:59.999999999Z` seen from `+01:00` as `10000-01-01T00:59:59.999999999+01:00` and refuses to read
    it: the domain of C05's `time_round` law.) -/
def timeOK (t : Time) : Bool :=
  let y := (civil ((t.nanos + t.off * 1000000000) / 1000000000 / 86400)).1
  -- … and the zone offset is whole minutes: `±hh:mm` drops the seconds, the text of an anchor in a zone 1 s east of
  -- Greenwich names another instant (found by `bwh leaflaws`)
  decide (0 ≤ y ∧ y ≤ 9999 ∧ t.off % 60 = 0)

example : timeOK ⟨253402300799999999999, 0⟩ = true ∧ timeOK ⟨253402300799999999999, 3600⟩ = false := by decide

/-- IDs that `%q` prints as they are between two double quotes. -/
def plainID (id : Bytes) : Bool := id.all fun b => 32 ≤ b && b ≤ 126 && b != 34 && b != 92

def predString : Pred → Option Bytes
  | .imm i => if plainID i then some ([34] ++ i ++ [34, 64, 91, 93]) else none
  | .tmp i t => if plainID i then some ([34] ++ i ++ [34, 64, 91] ++ rfc3339Nano t ++ [93]) else none

def str (b : Bytes) : String := String.fromUTF8! ⟨b.toArray⟩

example : str (rfc3339Nano ⟨1488596767000000008, 7200⟩) = "2017-03-04T05:06:07.000000008+02:00" := by decide
example : str (rfc3339Nano ⟨1420070400000000000, 0⟩) = "2015-01-01T00:00:00Z" := by decide
example : str (rfc3339Nano ⟨1488596767500000000, -12600⟩) = "2017-03-03T23:36:07.5-03:30" := by decide
example : str (rfc3339Nano ⟨-1, 0⟩) = "1969-12-31T23:59:59.999999999Z" := by decide
example : str (rfc3339Nano ⟨951782400000000000, 0⟩) = "2000-02-29T00:00:00Z" := by decide

end BW.Model.TimeFmt
