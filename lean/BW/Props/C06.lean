/-
C06 — Equal UUID exactly when values are equal; UUID defined for every value.

UUID(v) = SHA1(pre v). Assumption H_sha1 (DESIGN.md §6): SHA-1 is injective on the pre-images that
occur, so "same UUID" is "same pre-image". The theorems say where `pre` is injective; the closed
counter-witnesses say where it is not (each replayed on the implementation as a known finding).
-/
import BW.Proofs.UUID

namespace BW.Props.C06
open BW.Model BW.Proofs.UUID

/-- Predicates: same pre-image exactly when identifier, kind and 64-bit instant agree. -/
theorem pre_pred_iff (p q : Pred) :
    prePred p = prePred q ↔
      p.id = q.id ∧ p.anchor.map (fun t => toInt64 t.nanos) = q.anchor.map (fun t => toInt64 t.nanos) :=
  ⟨prePred_inj p q, fun ⟨h1, h2⟩ => prePred_congr p q h1 h2⟩

/-- … hence, for anchors inside the int64-nanosecond range (years 1678–2262), exactly when identifier,
    kind and instant agree, whatever the zones. -/
theorem pre_pred_inj_in_range (p q : Pred)
    (hp : ∀ t, p.anchor = some t → IsInt64 t.nanos) (hq : ∀ t, q.anchor = some t → IsInt64 t.nanos) :
    prePred p = prePred q ↔ p.id = q.id ∧ p.anchor.map (·.nanos) = q.anchor.map (·.nanos) := by
  rw [pre_pred_iff]
  cases p with
  | imm i => cases q <;> simp [Pred.anchor]
  | tmp i t =>
    cases q with
    | imm j => simp [Pred.anchor]
    | tmp j u =>
      simp only [Pred.anchor, Option.map_some, Option.some.injEq]
      rw [toInt64_of_range _ (hp t rfl), toInt64_of_range _ (hq u rfl)]

/-- An immutable and a temporal predicate never share a UUID. -/
theorem pre_pred_kinds_differ (i j : Bytes) (t : Time) : prePred (.imm i) ≠ prePred (.tmp j t) := by
  intro h
  have := (prePred_inj _ _ h).2
  simp [Pred.anchor] at this

theorem zone_irrelevant (i : Bytes) (n o₁ o₂ : Int) : prePred (.tmp i ⟨n, o₁⟩) = prePred (.tmp i ⟨n, o₂⟩) :=
  BW.Proofs.UUID.zone_irrelevant i n o₁ o₂

/-- Literals: injective inside each type (int64 over its whole range, floats by bit pattern). -/
theorem pre_lit_inj_within_type (a b : Lit) (h : preLit false a = preLit false b) :
    (∀ x y, a = .bool x → b = .bool y → x = y) ∧
    (∀ x y, a = .int x → b = .int y → IsInt64 x → IsInt64 y → x = y) ∧
    (∀ x y, a = .float x → b = .float y → x < 2 ^ 64 → y < 2 ^ 64 → x = y) ∧
    (∀ x y, a = .text x → b = .text y → x = y) ∧
    (∀ x y, a = .blob x → b = .blob y → x = y) := preLit_inj_within_type a b h

/-- The UUID is defined for every literal (and hence every object and triple). -/
theorem pre_defined (o : Obj) : (preObj false o).isSome = true := by
  cases o with
  | lit l => exact preLit_defined l
  | _ => rfl

/-- Nodes: injective among nodes of equal type and among nodes of equal id. -/
theorem pre_node_inj_partial (a b : Node) (h : preNode a = preNode b) (hc : a.ty = b.ty ∨ a.id = b.id) : a = b := by
  rcases hc with hc | hc
  · exact preNode_inj_same_type a b hc h
  · exact preNode_inj_same_id a b hc h

/-- Triples: the pre-image is the triple of component UUIDs, so it is injective exactly as far as the
    components are. -/
theorem pre_triple_inj (t u : Triple)
    (hs : preNode t.s = preNode u.s → t.s = u.s)
    (ho : preObj false t.o = preObj false u.o → t.o = u.o)
    (h : (preNode t.s, prePred t.p, preObj false t.o) = (preNode u.s, prePred u.p, preObj false u.o)) :
    t.s = u.s ∧ t.p.id = u.p.id ∧
      t.p.anchor.map (fun x => toInt64 x.nanos) = u.p.anchor.map (fun x => toInt64 x.nanos) ∧ t.o = u.o := by
  injection h with h1 h
  injection h with h2 h3
  exact ⟨hs h1, (prePred_inj _ _ h2).1, (prePred_inj _ _ h2).2, ho h3⟩

/-! #### The property is FALSE of the code in these named ways (closed witnesses; known findings) -/

/-- /a<bc> and /ab<c>: type and id are concatenated without a separator. -/
theorem pre_node_collision :
    preNode ⟨[47, 97], [98, 99]⟩ = preNode ⟨[47, 97, 98], [99]⟩ ∧ (⟨[47, 97], [98, 99]⟩ : Node) ≠ ⟨[47, 97, 98], [99]⟩ :=
  BW.Proofs.UUID.pre_node_collision

/-- "true"^^type:text and "true"^^type:bool: the literal type is not hashed. -/
theorem pre_lit_collision : preLit false (.text [116, 114, 117, 101]) = preLit false (.bool true) :=
  pre_lit_collision_text_bool

theorem pre_lit_collision_numeric :
    preLit false (.int 0) = preLit false (.float 0) ∧ preLit false (.int 0) = preLit false (.blob [0, 0, 0, 0, 0, 0, 0, 0]) :=
  pre_lit_collision_int_float_blob

/-- /u<a> and "/ua"^^type:text: the kind of an object is not hashed. -/
theorem pre_obj_collision : preObj false (.node ⟨[47, 117], [97]⟩) = preObj false (.lit (.text [47, 117, 97])) :=
  pre_obj_collision_node_text

/-- Instants 2^64 ns apart: UnixNano wraps. -/
theorem pre_anchor_wrap (i : Bytes) (n o : Int) :
    prePred (.tmp i ⟨n, o⟩) = prePred (.tmp i ⟨n + 18446744073709551616, o⟩) := BW.Proofs.UUID.pre_anchor_wrap i n o

/-- Before the repair of D03 the UUID of an int64 ≥ 2^55 was undefined (panic). -/
theorem pre_int_undefined_before_fix : preLit true (.int 36028797018963968) = none := preLit_quirk_undefined

/-! Non-vacuity -/
example : IsInt64 5 := by unfold IsInt64; omega
example : prePred (.tmp [112] ⟨5, 0⟩) = prePred (.tmp [112] ⟨5, 3600⟩) := rfl

end BW.Props.C06

#print axioms BW.Props.C06.pre_pred_iff
#print axioms BW.Props.C06.pre_pred_inj_in_range
#print axioms BW.Props.C06.pre_pred_kinds_differ
#print axioms BW.Props.C06.zone_irrelevant
#print axioms BW.Props.C06.pre_lit_inj_within_type
#print axioms BW.Props.C06.pre_defined
#print axioms BW.Props.C06.pre_node_inj_partial
#print axioms BW.Props.C06.pre_triple_inj
#print axioms BW.Props.C06.pre_node_collision
#print axioms BW.Props.C06.pre_lit_collision
#print axioms BW.Props.C06.pre_lit_collision_numeric
#print axioms BW.Props.C06.pre_obj_collision
#print axioms BW.Props.C06.pre_anchor_wrap
#print axioms BW.Props.C06.pre_int_undefined_before_fix
