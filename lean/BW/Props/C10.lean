/-
C10 — OPTIONAL is a left outer join: it never removes rows.

Proved for the planner model (all three strategies of processClause, the repaired LeftOptionalJoin and
per-row join) and for the reference semantics.  The equality of the planner's rows with the left outer
join of the reference semantics is tied by the `query` correspondence (mode optional) — partial.
-/
import BW.Proofs.Query

namespace BW.Props.C10
open BW.Model BW.Spec BW.Proofs.Query

/-- Planner model: processing an OPTIONAL clause — whatever strategy applies: fully specified,
    binding nothing, sharing no binding with the table, or sharing some — keeps every row (extended),
    and never makes the pattern unresolvable. -/
theorem optional_never_drops (F : Facts) (gs : List QGraph) (tbl : Tbl) (c : Clause) (lo : QOpts) (lim : Int)
    (t : Tbl) (u : Bool) (hc : c.optional = true) (h : processClause F gs tbl c lo lim = .ok (t, u)) :
    u = false ∧ ∀ r ∈ tbl.rows, ∃ r' ∈ t.rows, Extends r' r :=
  processClause_optional_keeps F gs tbl c lo lim t u hc h

/-- Planner model: a row joined with an OPTIONAL clause appears at least once; when no fetched row
    agrees with it, exactly once with the clause's new bindings NULL. -/
theorem optional_row_kept (r : Row) (bs : List Bytes) (fetched : List Row) :
    joinRow r true bs fetched ≠ [] ∧ ∀ r' ∈ joinRow r true bs fetched, Extends r' r :=
  joinRow_optional r bs fetched

theorem optional_row_null_when_no_match (r : Row) (bs : List Bytes) (fetched : List Row)
    (h : fetched.filter (compatibleRows r) = []) :
    joinRow r true bs fetched = [r.merge ((bs.filter (fun k => !r.has k)).map fun k => (k, Cell.null))] := by
  simp [joinRow, h]

theorem optional_row_once_per_match (r : Row) (bs : List Bytes) (fetched : List Row)
    (h : fetched.filter (compatibleRows r) ≠ []) :
    joinRow r true bs fetched = (fetched.filter (compatibleRows r)).map fun nr => r.merge nr := by
  unfold joinRow
  have : (fetched.filter (compatibleRows r)).isEmpty = false := by
    cases hf : fetched.filter (compatibleRows r) with
    | nil => exact absurd hf h
    | cons x xs => rfl
  simp [this]

/-- The repaired `LeftOptionalJoin` (optional side sharing no binding) keeps every left row. -/
theorem left_optional_join_keeps (t : Tbl) (bs : List Bytes) (rows : List Row) (t' : Tbl)
    (h : t.leftOptional bs rows = .ok t') : ∀ r ∈ t.rows, ∃ r' ∈ t'.rows, Extends r' r :=
  leftOptional_keeps t bs rows t' h

/-- Reference semantics: an OPTIONAL step keeps every row, and a row without match appears exactly
    once with the new bindings NULL. -/
theorem spec_optional_keeps (scan : List Triple) (glo ghi : Option Int) (rows : List Row) (c : Clause)
    (hc : c.optional = true) : ∀ r ∈ rows, ∃ r' ∈ joinClause scan glo ghi rows c, Extends r' r :=
  joinClause_optional_keeps scan glo ghi rows c hc

theorem spec_optional_nomatch (scan : List Triple) (glo ghi : Option Int) (r : Row) (c : Clause)
    (hc : c.optional = true)
    (hn : (scan.filterMap (matchClause c (clauseWindow glo ghi c r))).filter (compatible r) = []) :
    joinClause scan glo ghi [r] c = [r.merge ((c.bindings.filter (fun k => !r.has k)).map fun k => (k, Cell.null))] :=
  joinClause_optional_nomatch scan glo ghi r c hc hn

/-! Non-vacuity -/
example : joinRow [([63, 97], Cell.null)] true [[63, 98]] [] = [[([63, 97], Cell.null), ([63, 98], Cell.null)]] := by decide

end BW.Props.C10

#print axioms BW.Props.C10.optional_never_drops
#print axioms BW.Props.C10.optional_row_kept
#print axioms BW.Props.C10.optional_row_null_when_no_match
#print axioms BW.Props.C10.optional_row_once_per_match
#print axioms BW.Props.C10.left_optional_join_keeps
#print axioms BW.Props.C10.spec_optional_keeps
#print axioms BW.Props.C10.spec_optional_nomatch
