/-
C10 — OPTIONAL is a left outer join: it never removes rows.

Proved for the planner model (all three strategies of processClause, the repaired LeftOptionalJoin and
per-row join) and for the reference semantics.  The equality of the planner's rows with the left outer
join of the reference semantics is tied by the `query` correspondence (mode optional) — partial.
-/
import BW.Proofs.Query
import BW.Proofs.PlannerStep11

namespace BW.Props.C10
open BW.Model BW.Spec BW.Proofs.Query

/-- Planner model: processing an OPTIONAL clause — whatever strategy applies: fully specified,
    binding nothing, sharing no binding with the table, or sharing some — keeps every row (extended),
    and never makes the pattern unresolvable. -/
theorem optional_never_drops (F : Facts) (gs : List QGraph) (tbl : Tbl) (c : Clause) (lo : QOpts) (lim : Int)
    (t : Tbl) (u : Bool) (hc : c.optional = true) (h : processClause F gs tbl c lo lim = .ok (t, u)) :
    u = false ∧ ∀ r ∈ tbl.rows, ∃ r' ∈ t.rows, Extends r' r :=
  processClause_optional_keeps F gs tbl c lo lim t u hc h

/-- Planner model: a row joined with an OPTIONAL clause appears at least once; when no fetched row
    agrees with it, exactly once with the clause's new bindings NULL. -/
theorem optional_row_kept (r : Row) (bs : List Bytes) (fetched : List Row) :
    joinRow r true bs fetched ≠ [] ∧ ∀ r' ∈ joinRow r true bs fetched, Extends r' r :=
  joinRow_optional r bs fetched

theorem optional_row_null_when_no_match (r : Row) (bs : List Bytes) (fetched : List Row)
    (h : fetched.filter (compatibleRows r) = []) :
    joinRow r true bs fetched = [r.merge ((bs.filter (fun k => !r.has k)).map fun k => (k, Cell.null))] := by
  simp [joinRow, h]

theorem optional_row_once_per_match (r : Row) (bs : List Bytes) (fetched : List Row)
    (h : fetched.filter (compatibleRows r) ≠ []) :
    joinRow r true bs fetched = (fetched.filter (compatibleRows r)).map fun nr => r.merge nr := by
  unfold joinRow
  have : (fetched.filter (compatibleRows r)).isEmpty = false := by
    cases hf : fetched.filter (compatibleRows r) with
    | nil => exact absurd hf h
    | cons x xs => rfl
  simp [this]

/-- The repaired `LeftOptionalJoin` (optional side sharing no binding) keeps every left row. -/
theorem left_optional_join_keeps (t : Tbl) (bs : List Bytes) (rows : List Row) (t' : Tbl)
    (h : t.leftOptional bs rows = .ok t') : ∀ r ∈ t.rows, ∃ r' ∈ t'.rows, Extends r' r :=
  leftOptional_keeps t bs rows t' h

/-- Reference semantics: an OPTIONAL step keeps every row, and a row without match appears exactly
    once with the new bindings NULL. -/
theorem spec_optional_keeps (scan : List Triple) (glo ghi : Option Int) (rows : List Row) (c : Clause)
    (hc : c.optional = true) : ∀ r ∈ rows, ∃ r' ∈ joinClause scan glo ghi rows c, Extends r' r :=
  joinClause_optional_keeps scan glo ghi rows c hc

theorem spec_optional_nomatch (scan : List Triple) (glo ghi : Option Int) (r : Row) (c : Clause)
    (hc : c.optional = true)
    (hn : (scan.filterMap (matchClause c (clauseWindow glo ghi c r))).filter (compatible r) = []) :
    joinClause scan glo ghi [r] c = [r.merge ((c.bindings.filter (fun k => !r.has k)).map fun k => (k, Cell.null))] :=
  joinClause_optional_nomatch scan glo ghi r c hc hn

/-! Non-vacuity -/
example : joinRow [([63, 97], Cell.null)] true [[63, 98]] [] = [[([63, 97], Cell.null), ([63, 98], Cell.null)]] := by decide

/-! ### The planner's OPTIONAL step is the reference's left outer join -/

/-- Whatever strategy `processClause` picks for an OPTIONAL clause (skip of a clause of constants, keep after
    a probe, `LeftOptionalJoin` with a clause sharing no binding, per-row specialisation otherwise), the table
    it leaves is the reference's left outer join of the table with the clause: every row joined with each
    match that agrees with it, or kept once with the clause's new bindings unset when there is none — as a set
    of rows, up to anchor zone (hypotheses as for C03's `select_pattern_eq_solutions`). -/
theorem planner_optional_is_left_outer_join {gs : List QGraph} {F : Facts} (hF : BW.Proofs.Store.Facts.WF F = true)
    (hg : BW.Proofs.Planner.GraphsOK F gs) (U : BW.Proofs.Planner.Universe gs) {tbl tbl' : Tbl} {unres : Bool}
    (ht : BW.Proofs.Planner.TblOK U tbl) (hB : tbl.bindings ≠ []) {c : Clause} {lo : QOpts}
    (hc : BW.Proofs.Planner.PatClause U c) (hopt : c.optional = true) (hfil : lo.filter = none)
    (h : processClause F gs tbl c lo 0 = .ok (tbl', unres)) :
    unres = false ∧
    BW.Proofs.Planner.SetEq tbl'.rows
      (tbl.rows.flatMap (BW.Proofs.Planner.specJoinO (gs.flatMap BW.Proofs.Planner.scanOf) (BW.Proofs.Planner.nl lo.lower)
        (BW.Proofs.Planner.nl lo.upper) c)) := by
  obtain ⟨a1, a2, a3, a4⟩ := BW.Proofs.Planner.processClause_spec hF hg U ht hc.wf hc.consts hc.inU hfil hc.objBoundExcl
    (fun hb => absurd hb hB) (fun he hb => absurd (hc.noBareAliases he) hb) h
  rw [BW.Proofs.Planner.absRows_of_ne hB] at a3 a4
  have hu : unres = false := (processClause_optional_keeps F gs tbl c lo 0 tbl' unres hopt h).1
  refine ⟨hu, ?_⟩
  have := a3 hu
  rw [BW.Proofs.Planner.absRows_of_ne a2, BW.Proofs.Planner.joinClauseO_flat] at this
  exact this

end BW.Props.C10

#print axioms BW.Props.C10.optional_never_drops
#print axioms BW.Props.C10.optional_row_kept
#print axioms BW.Props.C10.optional_row_null_when_no_match
#print axioms BW.Props.C10.optional_row_once_per_match
#print axioms BW.Props.C10.left_optional_join_keeps
#print axioms BW.Props.C10.spec_optional_keeps
#print axioms BW.Props.C10.spec_optional_nomatch
#print axioms BW.Props.C10.planner_optional_is_left_outer_join
