/-
C14 — Query results depend only on data and query meaning, not on order or scheduling.

The reference semantics (`BW.Spec.Query`) and the planner model (`BW.Model.Query`) are *functions* of
the statement and the stored triples: they have no channel size, bulk size, processor count or clock
as an argument, so "the same answer on every run and configuration" is what the correspondence check
establishes of the implementation (every variant of a query is run on the real engine under different
chanSize / bulkSize / GOMAXPROCS and compared with the model and with the other variants).

PROVED here, of the reference semantics, for every data set and every pattern:
  * `partition_invariant`: the multiset of solutions depends only on the multiset of triple
    occurrences scanned, hence not on how the data is split over the graphs listed in FROM;
  * `rename_invariant`, `rename_projection`: a consistent renaming of the bindings renames the columns
    and changes nothing else;
  * `monotone`, `monotone_multiset`: without OPTIONAL, adding triples never removes a solution (nor
    lowers its multiplicity);
  * `total_order_one_sequence`: ORDER BY keys that are a total order on the rows at hand give one
    sequence, whatever order the rows arrive in;
  * `clause_order_invariant`: for every permutation of the clauses of a pattern without OPTIONAL (and
    without predicates bounded by another clause's bindings, whose meaning includes the order), the
    result rows — any selection of bindings, anchors as instants — are the same multiset; the core
    is that two join steps commute (`two_steps_commute`).
-/
import BW.Proofs.Query
import BW.Proofs.Rename
import BW.Proofs.Determinism
import BW.Proofs.ClauseOrder
import BW.Proofs.PlannerCorollaries
import BW.Proofs.Par
import BW.Proofs.Projection
import BW.Generated.ParFacts

namespace BW.Props.C14
open BW.Model BW.Spec BW.Proofs.Query BW.Proofs.Rename BW.Proofs.Determinism BW.Proofs.ClauseOrder

/-- The triples a query scans: the contents of the graphs listed in FROM, one after the other. -/
def scanOf (graphs : List (List Triple)) : List Triple := graphs.flatMap id

/-- The same data in one graph or partitioned over several (or listed in another order): the
    multiset of solutions is the same. -/
theorem partition_invariant (gs gs' : List (List Triple)) (glo ghi : Option Int) (cs : List Clause)
    (h : (scanOf gs).Perm (scanOf gs')) :
    (solutions (scanOf gs) glo ghi cs).Perm (solutions (scanOf gs') glo ghi cs) :=
  solutions_perm_scan _ _ glo ghi cs h

/-- … in particular one graph `a ++ b` against the two graphs `a`, `b` (any split), and the projected
    result rows with it. -/
theorem split_in_two (a b : List Triple) (glo ghi : Option Int) (cs : List Clause) (ps : List Proj) :
    ((solutions (scanOf [a ++ b]) glo ghi cs).map (project ps)).Perm ((solutions (scanOf [b, a]) glo ghi cs).map (project ps)) := by
  apply List.Perm.map
  apply partition_invariant
  simp only [scanOf, List.flatMap_cons, List.flatMap_nil, id, List.append_nil]
  exact List.perm_append_comm

/-- A consistent renaming of the bindings renames the keys of the solutions; values, number and order
    of the solutions stay. -/
theorem rename_invariant (ρ : Bytes → Bytes) (h : Renaming ρ) (scan : List Triple) (glo ghi : Option Int) (cs : List Clause) :
    solutions scan glo ghi (cs.map (renClause ρ)) = (solutions scan glo ghi cs).map (renRow ρ) :=
  solutions_ren h scan glo ghi cs

/-- … and the projected rows hold the same cells under the renamed column names. -/
theorem rename_projection (ρ : Bytes → Bytes) (h : Renaming ρ) (scan : List Triple) (glo ghi : Option Int)
    (cs : List Clause) (ps : List Proj) :
    (solutions scan glo ghi (cs.map (renClause ρ))).map (project (ps.map (renProj ρ)))
      = ((solutions scan glo ghi cs).map (project ps)).map (renRow ρ) := by
  rw [rename_invariant ρ h, List.map_map, List.map_map]
  apply List.map_congr_left
  intro r _
  exact project_ren h ps r

/-- The cells of a row are untouched by renaming. -/
theorem rename_keeps_cells (ρ : Bytes → Bytes) (r : Row) : (renRow ρ r).map (·.2) = r.map (·.2) := by
  simp [renRow, List.map_map, Function.comp_def]

/-- Adding triples never removes a solution of a pattern without OPTIONAL. -/
theorem monotone (scan scan' : List Triple) (glo ghi : Option Int) (cs : List Clause)
    (hc : ∀ c ∈ cs, c.optional = false) (hs : ∀ t ∈ scan, t ∈ scan') :
    ∀ r ∈ solutions scan glo ghi cs, r ∈ solutions scan' glo ghi cs :=
  solutions_mono scan scan' glo ghi cs hc hs

/-- … with multiplicities: the old result is contained in the new one as a multiset. -/
theorem monotone_multiset (scan scan' : List Triple) (glo ghi : Option Int) (cs : List Clause)
    (hc : ∀ c ∈ cs, c.optional = false) (hs : SubMulti scan scan') :
    SubMulti (solutions scan glo ghi cs) (solutions scan' glo ghi cs) :=
  solutions_subperm scan scan' glo ghi cs hc hs

/-- ORDER BY keys that are a total order on the rows of the result (total, transitive and
    antisymmetric on them) determine the sequence: any two arrival orders sort to the same list. -/
theorem total_order_one_sequence (S : Strs) (cfg : List (Bytes × Bool)) (rows rows' : List Row) (hp : rows.Perm rows')
    (hcfg : cfg ≠ [])
    (trans : ∀ a ∈ rows, ∀ b ∈ rows, ∀ c ∈ rows, rowLe S cfg a b = true → rowLe S cfg b c = true → rowLe S cfg a c = true)
    (total : ∀ a ∈ rows, ∀ b ∈ rows, (rowLe S cfg a b || rowLe S cfg b a) = true)
    (anti : ∀ a ∈ rows, ∀ b ∈ rows, rowLe S cfg a b = true → rowLe S cfg b a = true → a = b) :
    sortRows S cfg rows = sortRows S cfg rows' :=
  sortRows_deterministic S cfg rows rows' hp hcfg trans total anti

/-- A join step does not depend on the order of the rows it receives nor on the order of the scan. -/
theorem clause_order_partial (scan scan' : List Triple) (glo ghi : Option Int) (rows rows' : List Row) (c : Clause)
    (hr : rows.Perm rows') (hs : scan.Perm scan') :
    (joinClause scan glo ghi rows c).Perm (joinClause scan' glo ghi rows' c) :=
  (joinClause_perm_rows scan glo ghi rows rows' c hr).trans (joinClause_perm_scan scan scan' glo ghi rows' c hs)

/-- Two join steps commute (up to the order of the rows and the representation of anchors). -/
theorem two_steps_commute (scan : List Triple) (glo ghi : Option Int) (rows : List Row) (c1 c2 : Clause)
    (h1 : Plain c1) (h2 : Plain c2) (hn : AllNodup rows) :
    PermEq (joinClause scan glo ghi (joinClause scan glo ghi rows c1) c2)
           (joinClause scan glo ghi (joinClause scan glo ghi rows c2) c1) :=
  joinClause_swap scan glo ghi rows c1 c2 h1 h2 hn

/-- The order in which the clauses are written does not matter: every permutation of the clause list
    gives, for every selection `ks` of bindings, the same multiset of result rows. -/
theorem clause_order_invariant (scan : List Triple) (glo ghi : Option Int) (cs cs' : List Clause) (hp : cs.Perm cs')
    (hc : ∀ c ∈ cs, Plain c) (ks : List Bytes) :
    ((solutions scan glo ghi cs).map (obs ks)).Perm ((solutions scan glo ghi cs').map (obs ks)) :=
  solutions_clause_order scan glo ghi cs cs' hp hc ks

/-! Non-vacuity. -/
def t1 : Triple := ⟨⟨[47, 117], [97]⟩, .imm [112], .node ⟨[47, 117], [98]⟩⟩
def t2 : Triple := ⟨⟨[47, 117], [98]⟩, .imm [112], .lit (.int 3)⟩
def c1 : Clause := { sBinding := [63, 115], p := some (.imm [112]), oBinding := [63, 111] }
def c2 : Clause := { sBinding := [63, 111], p := some (.imm [112]), oBinding := [63, 120] }
example : (solutions (scanOf [[t1, t2]]) none none [c1, c2]).length = 1 := by decide
example : (solutions (scanOf [[t2], [t1]]) none none [c1, c2]).length = 1 := by decide
example : Plain c1 ∧ Plain c2 := ⟨⟨rfl, rfl, rfl⟩, ⟨rfl, rfl, rfl⟩⟩
example : (solutions (scanOf [[t1, t2]]) none none [c2, c1]).length = 1 := by decide
/-- a renaming: prefix every non-empty name with 'z'. -/
def pre (k : Bytes) : Bytes := if k = [] then [] else 122 :: k
theorem pre_renaming : Renaming pre := by
  constructor
  · intro a b h
    unfold pre at h
    by_cases ha : a = [] <;> by_cases hb : b = [] <;> simp_all
  · intro a
    unfold pre
    by_cases ha : a = [] <;> simp [ha]
/-- integer keys give a total order on rows that differ in the key. -/
example : rowLe ⟨fun _ => [], fun _ => [], fun _ => []⟩ [([107], false)] [([107], .lit (.int 1))] [([107], .lit (.int 2))] = true := by decide

/-! ### The same, of the planner (through C03's `select_pattern_eq_solutions`) -/

/-- Writing the clauses of a pattern in another order (no OPTIONAL, no bound aliases — `hno`: none on an object's interval either) makes the planner pick
    other strategies — which clause is fetched first, which are joined row by row — and leave the same set of
    rows. -/
theorem planner_clause_order_invariant {gs : List QGraph} {F : Facts} (hF : BW.Proofs.Store.Facts.WF F = true)
    (hg : BW.Proofs.Planner.GraphsOK F gs) (U : BW.Proofs.Planner.Universe gs) (lo : QOpts)
    (c0 : Clause) (cs : List Clause) (c0' : Clause) (cs' : List Clause) (hp : (c0 :: cs).Perm (c0' :: cs'))
    (hpc : ∀ c ∈ c0 :: cs, BW.Proofs.Planner.PatClause U c ∧ BW.Proofs.ClauseOrder.Plain c)
    (hno : ∀ c ∈ c0 :: cs, c.oLowerAlias = [] ∧ c.oUpperAlias = [])
    (h0 : c0.extractsNothing = false) (h0' : c0'.extractsNothing = false)
    (out out' : Tbl) (h : processPattern F gs (c0 :: cs) lo 0 (fun _ => none) = .ok out)
    (h' : processPattern F gs (c0' :: cs') lo 0 (fun _ => none) = .ok out') :
    BW.Proofs.Planner.SetEq out.rows out'.rows :=
  BW.Proofs.Planner.planner_clause_order hF hg U lo c0 cs c0' cs' hp hpc hno h0 h0' out out' h h'

/-- The same triples spread differently over the graphs listed in FROM: the same set of rows. -/
theorem planner_partition_invariant {gs gs' : List QGraph} {F : Facts} (hF : BW.Proofs.Store.Facts.WF F = true)
    (hg : BW.Proofs.Planner.GraphsOK F gs) (hg' : BW.Proofs.Planner.GraphsOK F gs')
    (U : BW.Proofs.Planner.Universe gs) (U' : BW.Proofs.Planner.Universe gs') (lo : QOpts) (c0 : Clause) (cs : List Clause)
    (hscan : (gs.flatMap BW.Proofs.Planner.scanOf).Perm (gs'.flatMap BW.Proofs.Planner.scanOf))
    (hpc : ∀ c ∈ c0 :: cs, BW.Proofs.Planner.PatClause U c) (hpc' : ∀ c ∈ c0 :: cs, BW.Proofs.Planner.PatClause U' c)
    (hopt : c0.optional = false) (h0 : c0.extractsNothing = false)
    (out out' : Tbl) (h : processPattern F gs (c0 :: cs) lo 0 (fun _ => none) = .ok out)
    (h' : processPattern F gs' (c0 :: cs) lo 0 (fun _ => none) = .ok out') :
    BW.Proofs.Planner.SetEq out.rows out'.rows :=
  BW.Proofs.Planner.planner_partition hF hg hg' U U' lo c0 cs hscan hpc hpc' hopt h0 out out' h h'

/-- Adding triples never removes a row of the planner's table (patterns without OPTIONAL). -/
theorem planner_monotone {gs gs' : List QGraph} {F : Facts} (hF : BW.Proofs.Store.Facts.WF F = true)
    (hg : BW.Proofs.Planner.GraphsOK F gs) (hg' : BW.Proofs.Planner.GraphsOK F gs')
    (U : BW.Proofs.Planner.Universe gs) (U' : BW.Proofs.Planner.Universe gs') (lo : QOpts) (c0 : Clause) (cs : List Clause)
    (hsub : ∀ t ∈ gs.flatMap BW.Proofs.Planner.scanOf, t ∈ gs'.flatMap BW.Proofs.Planner.scanOf)
    (hpc : ∀ c ∈ c0 :: cs, BW.Proofs.Planner.PatClause U c ∧ c.optional = false)
    (hpc' : ∀ c ∈ c0 :: cs, BW.Proofs.Planner.PatClause U' c) (h0 : c0.extractsNothing = false)
    (out out' : Tbl) (h : processPattern F gs (c0 :: cs) lo 0 (fun _ => none) = .ok out)
    (h' : processPattern F gs' (c0 :: cs) lo 0 (fun _ => none) = .ok out') :
    ∀ r ∈ out.rows, ∃ r' ∈ out'.rows, BW.Proofs.ClauseOrder.RowEq r r' :=
  BW.Proofs.Planner.planner_monotone hF hg hg' U U' lo c0 cs hsub hpc hpc' h0 out out' h h'

/-! ### The order of the SELECT list -/

/-- Writing the SELECT list in another order permutes the columns and nothing else: in the reference every
    column shows the same cell, and (C03, `projection_is_simultaneous`: since 1cfe61b without a condition on
    the alias names) the planner's projection shows the reference's cells. Before 1cfe61b
    `select ?s as ?o, ?o as ?x` and `select ?o as ?x, ?s as ?o` disagreed on `?x`. -/
theorem projection_order_invariant (ps ps' : List Proj) (hp : ps.Perm ps') (hn : (ps.map Proj.out).Nodup)
    (hb : ∀ p ∈ ps, p.binding ≠ []) (r : Row) (hr : ∀ p ∈ ps, r.has p.binding = true) :
    (∀ k, (project ps r).get k = (project ps' r).get k) ∧
    (∀ p ∈ ps, (projectRow ps r).get p.out = (projectRow ps' r).get p.out) := by
  refine ⟨BW.Proofs.Projection.project_perm ps ps' hp hn hb r, ?_⟩
  intro p hpm
  have hn' : (ps'.map Proj.out).Nodup := (hp.map Proj.out).nodup_iff.mp hn
  rw [BW.Proofs.Projection.projection_spec ps r hb hn hr p hpm,
    BW.Proofs.Projection.projection_spec ps' r (fun q hq => hb q (hp.mem_iff.mpr hq)) hn'
      (fun q hq => hr q (hp.mem_iff.mpr hq)) p (hp.mem_iff.mp hpm)]
  exact BW.Proofs.Projection.project_perm ps ps' hp hn hb r p.out

/-! ### Scheduling: the goroutines of the per-row join -/

/-- Regenerated obligation (`parfacts`, go/ast): the goroutines `specifyClauseWithTable` starts — one per row —
    touch the shared table only through `Table.AddBindings` and `Table.AddRow`, both of which hold the table's
    mutex for their whole body; they assign to no field of the plan; each works on its own copy of the clause and
    of the row. -/
theorem per_row_goroutines_share_only_the_locked_table :
    BW.Generated.addRowLocked = true ∧ BW.Generated.addBindingsLocked = true ∧
    BW.Generated.perRowTableUses.all (fun m => m == "AddBindings" || m == "AddRow") = true ∧
    BW.Generated.perRowWritesPlan = false ∧ BW.Generated.perRowOwnCopies = true := by decide

/-- The per-row join does not depend on the schedule: whatever the interleaving of the goroutines' atomic
    `AddRow` calls (small-step model: any thread that still has rows appends its next one), once all are done the
    table holds a permutation of the rows the sequential loop of the planner model adds — the rows for row 1,
    then for row 2, … — after those it held before. (Order is not promised without ORDER BY: C12.) -/
theorem per_row_join_schedule_independent {α : Type} (tbl0 : List α) (threads : List (List α)) (tbl : List α)
    (rest : List (List α)) (h : BW.Proofs.Par.Run (tbl0, threads) (tbl, rest)) (hd : BW.Proofs.Par.Done (tbl, rest)) :
    tbl.Perm (tbl0 ++ threads.flatten) :=
  BW.Proofs.Par.schedule_independent tbl0 threads tbl rest h hd

/-- … and no schedule gets stuck before every row has been added. -/
theorem per_row_join_progress {α : Type} (tbl : List α) (ls : List (List α)) (h : ¬ BW.Proofs.Par.Done (tbl, ls)) :
    ∃ t, BW.Proofs.Par.Step (tbl, ls) t :=
  BW.Proofs.Par.can_step tbl ls h

/-- Non-vacuity: two threads, the second one's row added first. -/
example : BW.Proofs.Par.Run (([] : List Nat), [[1, 2], [3]]) ([3, 1, 2], [[], []]) :=
  .step (BW.Proofs.Par.Step.add [] [[1, 2]] 3 [] []) <|
  .step (BW.Proofs.Par.Step.add [3] [] 1 [2] [[]]) <|
  .step (BW.Proofs.Par.Step.add [3, 1] [] 2 [] [[]]) <| .refl _

end BW.Props.C14

#print axioms BW.Props.C14.partition_invariant
#print axioms BW.Props.C14.split_in_two
#print axioms BW.Props.C14.rename_invariant
#print axioms BW.Props.C14.rename_projection
#print axioms BW.Props.C14.rename_keeps_cells
#print axioms BW.Props.C14.monotone
#print axioms BW.Props.C14.monotone_multiset
#print axioms BW.Props.C14.total_order_one_sequence
#print axioms BW.Props.C14.clause_order_partial
#print axioms BW.Props.C14.two_steps_commute
#print axioms BW.Props.C14.clause_order_invariant
#print axioms BW.Props.C14.pre_renaming
#print axioms BW.Props.C14.planner_clause_order_invariant
#print axioms BW.Props.C14.planner_partition_invariant
#print axioms BW.Props.C14.planner_monotone
#print axioms BW.Props.C14.per_row_goroutines_share_only_the_locked_table
#print axioms BW.Props.C14.per_row_join_schedule_independent
#print axioms BW.Props.C14.per_row_join_progress
#print axioms BW.Props.C14.projection_order_invariant
