/-
C04 — Data and graph statements change the store exactly as stated, nothing else.

Model: `BW.Model.Stm.exec` (createPlan, dropPlan, insertPlan, deletePlan, constructPlan with the
`update` fan-out, `Statement.Init`, template instantiation and `Triple.Reify`) over the storage
contract that C01 establishes for the in-memory driver (names ↦ sets of triples, triples as values),
the WHERE pattern evaluated by the reference semantics of C03.  `SemAt st g` is the set graph `g`
denotes.

PROVED, for every store, statement, data list and template:
  insert_effect / delete_effect — every target gains / loses exactly the listed triples, no other graph
      changes, no graph appears or disappears, and success is reported iff every target exists;
  create_effect / drop_effect — exactly the named graphs appear (empty) / disappear, the others keep
      their content;
  construct_rejected — CONSTRUCT / DECONSTRUCT naming a graph that does not exist changes nothing;
  construct_effect / deconstruct_effect — on success every target gains / loses exactly the triples
      the template yields over the solutions of the WHERE pattern, and only targets change;
  reified_row / plain_row — what one template clause yields for one row (with ';': the three
      reification triples plus one fact per further pair, all on the row's blank node, *not* the
      triple itself);
  blank_nodes_fresh — within a statement every reification gets a different blank node, all at or
      above the store's counter, and the counter ends above them all (never handed out again).
ASSUMED (not provable about the code): `node.NewBlankNode` never returns a node that is already in
the store (random UUIDs) — the model's counter is the abstraction of that.
Tie: the `stmts` correspondence (see vlib/c04.py).
-/
import BW.Proofs.Statements
import BW.Proofs.HooksStmt

namespace BW.Props.C04
open BW.Model BW.Spec BW.Model.Stm BW.Proofs.Statements

/-- INSERT DATA: each existing target graph becomes its previous content plus the listed triples;
    nothing else changes; success iff every target exists. -/
theorem insert_effect (st : VStore) (d : DStmt) (hk : d.kind = .insert) :
    let r := exec st d
    (∀ m k, SemAt r.1 m k ↔ SemAt st m k ∨ (m ∈ d.outputs ∧ st.exists m = true ∧ k ∈ d.data.map normT)) ∧
    (∀ m, m ∉ d.outputs → r.1.get m = st.get m) ∧
    (∀ m, r.1.exists m = st.exists m) ∧
    (r.2 = .ok ↔ ∀ n ∈ d.outputs, st.exists n = true) := by
  simp only [exec, hk, updateAll_eq]
  refine ⟨fun m k => foldU_add d.data d.outputs (st, .ok) m k, fun m hm => foldU_untouched _ _ _ m hm,
    fun m => foldU_exists _ _ _ m, ?_⟩
  have := foldU_outcome (·.addAll d.data) d.outputs (st, .ok)
  simpa using this

/-- DELETE DATA: each target loses exactly the listed triples; nothing else changes. -/
theorem delete_effect (st : VStore) (d : DStmt) (hk : d.kind = .delete) :
    let r := exec st d
    (∀ m k, SemAt r.1 m k ↔ SemAt st m k ∧ ¬ (m ∈ d.inputs ∧ k ∈ d.data.map normT)) ∧
    (∀ m, m ∉ d.inputs → r.1.get m = st.get m) ∧
    (∀ m, r.1.exists m = st.exists m) ∧
    (r.2 = .ok ↔ ∀ n ∈ d.inputs, st.exists n = true) := by
  simp only [exec, hk, updateAll_eq]
  refine ⟨fun m k => foldU_rem d.data d.inputs (st, .ok) m k, fun m hm => foldU_untouched _ _ _ m hm,
    fun m => foldU_exists _ _ _ m, ?_⟩
  have := foldU_outcome (·.remAll d.data) d.inputs (st, .ok)
  simpa using this

/-- CREATE GRAPH: afterwards a graph exists iff it existed or is named; graphs that existed keep their
    content; the new ones are empty; success implies none of the names existed. -/
theorem create_effect (st : VStore) (d : DStmt) (hk : d.kind = .create) (m : Bytes) :
    let r := exec st d
    r.1.get m = (match st.get m with
      | some g => some g
      | none => if m ∈ d.graphNames then some [] else none) ∧
    (r.2 = .ok → ∀ n ∈ d.graphNames, st.exists n = false) := by
  simp only [exec, hk, execCreate_eq]
  exact ⟨foldC_get d.graphNames (st, .ok) m, fun h => (foldC_outcome_ok _ _ h).2⟩

/-- DROP GRAPH: exactly the named graphs disappear; the others keep their content; success implies
    every named graph existed. -/
theorem drop_effect (st : VStore) (d : DStmt) (hk : d.kind = .drop) (m : Bytes) :
    let r := exec st d
    r.1.get m = (if m ∈ d.graphNames then none else st.get m) ∧
    (r.2 = .ok → ∀ n ∈ d.graphNames, st.exists n = true) := by
  simp only [exec, hk, execDrop_eq]
  exact ⟨foldD_get d.graphNames (st, .ok) m, fun h => (foldD_outcome_ok _ _ h).2⟩

/-- CONSTRUCT / DECONSTRUCT naming a graph that does not exist is rejected before anything is
    written: the store is unchanged. -/
theorem construct_rejected (st : VStore) (d : DStmt) (hk : d.kind = .construct ∨ d.kind = .deconstruct)
    (n : Bytes) (hn : n ∈ d.graphNames ++ d.inputs ++ d.outputs) (hmiss : st.exists n = false) :
    exec st d = (st, .rejected) := by
  have hall : (d.graphNames ++ d.inputs ++ d.outputs).all st.exists = false := by
    rw [List.all_eq_false]
    exact ⟨n, hn, by simp [hmiss]⟩
  rcases hk with hk | hk <;> simp only [exec, hk, hall] <;> rfl

/-- The triples a template yields over the solutions of the WHERE pattern that HAVING (if any) keeps. -/
def templateTriples (st : VStore) (d : DStmt) : Except TErr (List Triple × Nat) :=
  (whereRows st d).bind fun rows => instAll (fun b => d.outBindings.contains b) d.ccs rows st.nextBlank

/-- CONSTRUCT: on success every target gains exactly the instantiated template triples; graphs that
    are not targets (the FROM graphs included) keep their content; no graph appears or disappears. -/
theorem construct_effect (st : VStore) (d : DStmt) (hk : d.kind = .construct)
    (hall : (d.graphNames ++ d.inputs ++ d.outputs).all st.exists = true) (ts : List Triple) (next : Nat)
    (hts : templateTriples st d = .ok (ts, next)) :
    let r := exec st d
    (∀ m k, SemAt r.1 m k ↔ SemAt st m k ∨ (m ∈ d.outputs ∧ k ∈ ts.map normT)) ∧
    (∀ m, m ∉ d.outputs → r.1.get m = st.get m) ∧
    (∀ m, r.1.exists m = st.exists m) ∧ r.2 = .ok ∧ r.1.nextBlank = next := by
  unfold templateTriples at hts
  have hex : ∀ n ∈ d.outputs, st.exists n = true := by
    intro n hn
    have := List.all_eq_true.mp hall n (by simp [hn])
    exact this
  simp only [exec, hk, hall, hts, updateAll_eq]
  simp only [Bool.not_true, Bool.false_eq_true, if_false, beq_self_eq_true, if_true]
  refine ⟨?_, fun m hm => foldU_untouched _ _ _ m hm, fun m => foldU_exists _ _ _ m, ?_, ?_⟩
  · intro m k
    rw [foldU_add]
    constructor
    · rintro (h | ⟨h1, _, h3⟩)
      · exact Or.inl h
      · exact Or.inr ⟨h1, h3⟩
    · rintro (h | ⟨h1, h3⟩)
      · exact Or.inl h
      · exact Or.inr ⟨h1, hex m h1, h3⟩
  · exact (foldU_outcome _ _ _).mpr ⟨rfl, hex⟩
  · rw [foldU_nextBlank]

/-- DECONSTRUCT: on success every target loses exactly the instantiated template triples. -/
theorem deconstruct_effect (st : VStore) (d : DStmt) (hk : d.kind = .deconstruct)
    (hall : (d.graphNames ++ d.inputs ++ d.outputs).all st.exists = true) (ts : List Triple) (next : Nat)
    (hts : templateTriples st d = .ok (ts, next)) :
    let r := exec st d
    (∀ m k, SemAt r.1 m k ↔ SemAt st m k ∧ ¬ (m ∈ d.outputs ∧ k ∈ ts.map normT)) ∧
    (∀ m, m ∉ d.outputs → r.1.get m = st.get m) ∧
    (∀ m, r.1.exists m = st.exists m) ∧ r.2 = .ok := by
  unfold templateTriples at hts
  have hex : ∀ n ∈ d.outputs, st.exists n = true := by
    intro n hn
    exact List.all_eq_true.mp hall n (by simp [hn])
  simp only [exec, hk, hall, hts, updateAll_eq]
  simp only [Bool.not_true, Bool.false_eq_true, if_false]
  have hne : (Kind.deconstruct == Kind.construct) = false := by decide
  simp only [hne, Bool.false_eq_true, if_false]
  exact ⟨fun m k => foldU_rem ts d.outputs _ m k, fun m hm => foldU_untouched _ _ _ m hm, fun m => foldU_exists _ _ _ m,
    (foldU_outcome _ _ _).mpr ⟨rfl, hex⟩⟩

/-- The template is instantiated clause by clause, row by row, over the rows HAVING keeps. -/
theorem template_is_per_row (st : VStore) (d : DStmt) (rows : List Row) (h : whereRows st d = .ok rows) :
    templateTriples st d = instSeq (fun b => d.outBindings.contains b)
      (d.ccs.flatMap fun cc => rows.map fun r => (cc, r)) st.nextBlank := by
  unfold templateTriples
  rw [h]
  exact instAll_eq _ _ _ _

/-- HAVING of CONSTRUCT / DECONSTRUCT keeps exactly the solutions for which it holds, in order; an evaluation
    that fails fails the statement before anything is written. -/
theorem having_keeps_exactly (d : DStmt) (sols kept : List Row) (h : keptRows d sols = .ok kept) :
    kept = sols.filter (fun r => d.keep r == some true) ∧ ∀ r ∈ sols, (d.keep r).isSome = true := by
  induction sols generalizing kept with
  | nil => simp only [keptRows, Except.ok.injEq] at h; subst h; simp
  | cons r rest ih =>
    simp only [keptRows] at h
    cases hk : d.keep r with
    | none => simp [hk] at h
    | some b =>
      simp only [hk] at h
      cases hr : keptRows d rest with
      | error e => simp [hr, Except.map] at h
      | ok rs =>
        simp only [hr, Except.map, Except.ok.injEq] at h
        obtain ⟨e1, e2⟩ := ih rs hr
        subst h
        refine ⟨?_, ?_⟩
        · cases b <;> simp [List.filter_cons, hk, e1]
        · intro x hx
          rcases List.mem_cons.mp hx with e | hx
          · rw [e, hk]; rfl
          · exact e2 x hx

theorem having_failure_changes_nothing (st : VStore) (d : DStmt) (hk : d.kind = .construct ∨ d.kind = .deconstruct)
    (hall : (d.graphNames ++ d.inputs ++ d.outputs).all st.exists = true) (e : TErr) (h : whereRows st d = .error e) :
    exec st d = (st, .failed) := by
  rcases hk with hk | hk <;> simp only [exec, hk, hall, h, Except.bind, Bool.not_true, Bool.false_eq_true, if_false]

/-- A clause without ';' yields one triple per row. -/
theorem plain_row (hasB : Bytes → Bool) (cc : CClause) (b : Node) (r : Row) (ts : List Triple)
    (h : instClause hasB cc b r = .ok (ts, false)) : ∃ t, ts = [t] ∧ cc.pairs.length = 1 :=
  instClause_plain hasB cc b r ts h

/-- A clause with ';' yields, per row, the three reification triples and one extra fact per further
    pair, all on one blank node. -/
theorem reified_row (hasB : Bytes → Bool) (cc : CClause) (b : Node) (r : Row) (ts : List Triple)
    (h : instClause hasB cc b r = .ok (ts, true)) :
    ∃ (t : Triple) (extras : List Triple), ts = [⟨b, reifPred subjectId t.p, .node t.s⟩, ⟨b, reifPred predicateId t.p, .pred t.p⟩,
        ⟨b, reifPred objectId t.p, t.o⟩] ++ extras ∧ extras.length + 1 = cc.pairs.length ∧ (∀ e ∈ extras, e.s = b) :=
  let ⟨t, ex, h1, h2, h3, _⟩ := instClause_reified hasB cc b r ts h
  ⟨t, ex, h1, h2, h3⟩

/-- Blank nodes: different reifications of one statement get different blank nodes, none below the
    store's counter, and the counter ends above all of them. -/
theorem blank_nodes_fresh (hasB : Bytes → Bool) (ps : List (CClause × Row)) (n n' : Nat) (ts : List Triple)
    (h : instSeq hasB ps n = .ok (ts, n')) :
    ((handed hasB ps n).map blankNode).Nodup ∧ (∀ i ∈ handed hasB ps n, n ≤ i ∧ i < n') ∧ n ≤ n' := by
  have hl := handed_lt hasB ps n n' ts h
  refine ⟨?_, fun i hi => ⟨handed_ge hasB ps n i hi, hl.2 i hi⟩, hl.1⟩
  exact handed_blanks_nodup hasB ps n

/-! Non-vacuity: a reifying template on a one-row result. -/
def exCC : CClause := { sBinding := [63, 115], pairs := [{ p := some (.imm [112]), oBinding := [63, 111] }, { p := some (.imm [113]), o := some (.lit (.int 1)) }] }
def exRow : Row := [([63, 115], .node ⟨[47, 117], [97]⟩), ([63, 111], .node ⟨[47, 117], [98]⟩)]
example : (match instClause (fun _ => true) exCC (blankNode 0) exRow with | .ok (ts, used) => ts.length == 4 && used | _ => false) = true := by decide
def exSt : VStore := { graphs := [([63, 97], [])] }
def exIns : DStmt := { kind := .insert, outputs := [[63, 97]], data := [⟨⟨[47, 117], [97]⟩, .imm [112], .lit (.int 1)⟩] }
example : (exec exSt exIns).2 = .ok ∧ ((exec exSt exIns).1.get [63, 97]).map (·.length) = some 1 := by decide

/-! ### From the text to the statement (the semantic hooks, `BW.Model.Hooks`, run against the real hooks on
    every generated statement; which symbol feeds which hook: `C18.routing_wf`) -/

/-- The body of INSERT / DELETE means what it says: the data accumulator over the tokens of the body —
    `{`, then per triple its subject, predicate and object (node, predicate or literal) tokens after a
    separator, then `} ;` — collects exactly the triples written, in order, whatever an earlier statement left
    in its closure (`C18.hooks_keep_no_state`), and ends with no triple under construction. -/
theorem data_means_its_tokens (ts d : List Triple) (c : Nat) :
    BW.Proofs.HooksStmt.dataRun d { cur := c }
      (ts.flatMap BW.Proofs.HooksStmt.tripleToks ++ [BW.Proofs.HooksStmt.tk .other, BW.Proofs.HooksStmt.tk .other]) =
      some (d ++ ts, { cur := c }) :=
  BW.Proofs.HooksStmt.data_denote ts d c

/-- CREATE / DROP GRAPH and INTO / IN mean what they say: the graphs are the bindings listed, in order. -/
theorem graph_list_means_its_tokens (gs l : List Bytes) :
    BW.Proofs.HooksStmt.namesRun l (BW.Proofs.HooksStmt.commaToks gs) = some (l ++ gs) :=
  BW.Proofs.HooksStmt.names_denote gs l

/-- The template of CONSTRUCT / DECONSTRUCT means what it says: driven by the clause hooks the grammar
    attaches, the template hooks over `s p o ; p' o' . s' …` build exactly the clauses written — subject (node,
    blank node or binding), per pair its predicate (full or binding) and object (node, literal, full predicate
    or binding), in order — and leave no clause under construction. -/
theorem template_means_its_tokens (cs : List BW.Proofs.HooksStmt.ClauseA) (hok : ∀ c ∈ cs, c.ok ∧ c.pairs ≠ [])
    (w : BW.Model.Hooks.WState) (hw : w.wcc = some {}) :
    BW.Model.Hooks.wrun w (BW.Proofs.HooksStmt.triplesEvs cs) =
      some { w with head := { w.head with ccs := w.head.ccs ++ cs.map BW.Proofs.HooksStmt.ClauseA.denote } } :=
  BW.Proofs.HooksStmt.template_denote cs hok w hw

/-- Non-vacuity: `{ ?s "p"@[] ?o ; ?q /u<a> }` has one clause with two pairs. -/
example : ((BW.Model.Hooks.wrun { wcc := some {} } (BW.Proofs.HooksStmt.triplesEvs
      [{ s := .bind [63, 115], pairs := [{ p := .pred (.imm [112]), o := .bind [63, 111] }, { p := .bind [63, 113], o := .obj (.node ⟨[47, 117], [97]⟩) }] }])).map
    fun w => w.head.ccs.map fun c => (c.sBinding, c.pairs.length)) = some [([63, 115], 2)] := by decide

end BW.Props.C04

#print axioms BW.Props.C04.insert_effect
#print axioms BW.Props.C04.delete_effect
#print axioms BW.Props.C04.create_effect
#print axioms BW.Props.C04.drop_effect
#print axioms BW.Props.C04.construct_rejected
#print axioms BW.Props.C04.construct_effect
#print axioms BW.Props.C04.deconstruct_effect
#print axioms BW.Props.C04.template_is_per_row
#print axioms BW.Props.C04.plain_row
#print axioms BW.Props.C04.reified_row
#print axioms BW.Props.C04.blank_nodes_fresh
#print axioms BW.Props.C04.data_means_its_tokens
#print axioms BW.Props.C04.graph_list_means_its_tokens
#print axioms BW.Props.C04.template_means_its_tokens
#print axioms BW.Props.C04.having_keeps_exactly
#print axioms BW.Props.C04.having_failure_changes_nothing
