/-
C09 — Lookup options: time window, filter functions and paging select as defined.
-/
import BW.Proofs.StoreRefine
import BW.Generated.MemoryFacts

namespace BW.Props.C09
open BW.Model BW.Spec BW.Proofs.Store BW.Proofs.Lookup BW.Proofs.StoreRefine BW.Generated

theorem facts_wf : Facts.WF memoryFacts = true := by decide

/-- For all options, every look-up equals the declarative definition
    `page n k (sortByStr (filt (window candidates)))` or the documented error
    (LatestAnchor together with FilterOptions; a filter on the subject field; an unknown operation). -/
theorem lookup_opts {g : Graph} (hg : Inv memoryFacts g) (m : Method) (a : LArgs) (lo : LookupOpts)
    (ha : argsOK m a = true) (hp : 0 < lo.maxElements ∨ lo.maxElements * lo.offset ≤ 0) :
    g.lookup memoryFacts m a lo = scanLookup g.master m a lo :=
  lookup_eq_scan facts_wf hg m a lo ha hp

/-- The window is the closed interval; an absent side is unbounded; immutable triples always pass. -/
theorem window_closed (lo : LookupOpts) (t : TView) :
    inWindow lo t = true ↔
      (t.pnano = none ∨ ∃ a, t.pnano = some a ∧ (∀ l, lo.lower = some l → l ≤ a) ∧ (∀ u, lo.upper = some u → a ≤ u)) := by
  unfold inWindow
  cases ht : t.pnano with
  | none => simp
  | some a =>
    cases hl : lo.lower <;> cases hu : lo.upper <;> simp

/-- isImmutable / isTemporal keep exactly the triples whose predicate (or predicate-valued object)
    is of that kind; other objects are dropped. -/
theorem filt_kind (f : FilterField) (c : List TView) (t : TView) :
    (t ∈ filt ⟨.isImmutable, f⟩ c ↔ t ∈ c ∧ ∃ pid, filterPred f t = some (pid, none)) ∧
    (t ∈ filt ⟨.isTemporal, f⟩ c ↔ t ∈ c ∧ ∃ pid a, filterPred f t = some (pid, some a)) := by
  unfold filt kindOfField
  simp only [List.mem_filter]
  constructor
  · cases h : filterPred f t with
    | none => simp
    | some pr => obtain ⟨x, y⟩ := pr; cases y <;> simp
  · cases h : filterPred f t with
    | none => simp
    | some pr => obtain ⟨x, y⟩ := pr; cases y <;> simp

/-- latest keeps, per predicate identifier, the temporal candidates with the greatest anchor
    (ties kept). -/
theorem filt_latest (f : FilterField) (c : List TView) (t : TView) :
    t ∈ filt ⟨.latest, f⟩ c ↔
      t ∈ c ∧ ∃ pid a, filterPred f t = some (pid, some a) ∧
        ∀ u ∈ c, ∀ a', filterPred f u = some (pid, some a') → a' ≤ a := by
  unfold filt latestOf
  simp only [List.mem_filter]
  constructor
  · rintro ⟨hc, h⟩
    refine ⟨hc, ?_⟩
    cases hp : filterPred f t with
    | none => simp [hp] at h
    | some pr =>
      obtain ⟨pid, y⟩ := pr
      cases y with
      | none => simp [hp] at h
      | some a =>
        refine ⟨pid, a, rfl, ?_⟩
        intro u hu a' hpu
        simp only [hp, List.all_eq_true] at h
        have := h u hu
        simp only [hpu, beq_self_eq_true, Bool.not_true, Bool.false_or, Bool.not_eq_true',
          decide_eq_false_iff_not] at this
        exact Int.not_lt.mp this
  · rintro ⟨hc, pid, a, hp, hmax⟩
    refine ⟨hc, ?_⟩
    simp only [hp, List.all_eq_true]
    intro u hu
    cases hpu : filterPred f u with
    | none => rfl
    | some pr =>
      obtain ⟨pid', y⟩ := pr
      cases y with
      | none => rfl
      | some a' =>
        by_cases hpid : pid' = pid
        · subst hpid
          have := hmax u hu a' hpu
          have hlt : ¬ a < a' := Int.not_lt.mpr this
          simp [hlt]
        · simp [hpid]

/-- The paging state machine of the checker is exactly "k-th block of n". -/
theorem checker_is_page (lo : LookupOpts) (l : List TView)
    (h : 0 < lo.maxElements ∨ lo.maxElements * lo.offset ≤ 0) :
    emit (Pager.new lo) l = page lo.maxElements lo.offset l :=
  BW.Proofs.Lookup.checker_is_page lo l h

/-- Consecutive pages concatenate to the unpaged result: the first `j` pages are its first `n*j`
    elements… -/
theorem pages_prefix (n : Nat) (l : List TView) (j : Nat) (hn : 0 < n) :
    ((List.range j).map fun (k : Nat) => page (n : Int) (k : Int) l).flatten = l.take (n * j) := by
  induction j with
  | zero => simp
  | succ j ih =>
    rw [List.range_succ, List.map_append, List.flatten_append, ih]
    have hn' : ¬ ((n : Int) ≤ 0) := by omega
    simp only [List.map_cons, List.map_nil, List.flatten_cons, List.flatten_nil, List.append_nil, page, hn', if_false]
    have e1 : ((n : Int) * (j : Int)).toNat = n * j := by
      rw [← Int.natCast_mul]; exact Int.toNat_natCast _
    have e2 : (n : Int).toNat = n := Int.toNat_natCast _
    rw [e1, e2, Nat.mul_succ]
    exact (List.take_add).symm

/-- … hence once `n*j` reaches the length, the concatenation of the pages is the whole result. -/
theorem pages_partition (n : Nat) (l : List TView) (j : Nat) (hn : 0 < n) (hj : l.length ≤ n * j) :
    ((List.range j).map fun (k : Nat) => page (n : Int) (k : Int) l).flatten = l := by
  rw [pages_prefix n l j hn, List.take_of_length_le hj]

/-- Pages at different offsets are disjoint (as positions: page k is the segment [n*k, n*k+n)). -/
theorem page_segment (n k : Nat) (l : List TView) (hn : 0 < n) :
    page (n : Int) (k : Int) l = (l.drop (n * k)).take n := by
  have hn' : ¬ ((n : Int) ≤ 0) := by omega
  have e1 : ((n : Int) * (k : Int)).toNat = n * k := by
    rw [← Int.natCast_mul]; exact Int.toNat_natCast _
  have e2 : (n : Int).toNat = n := Int.toNat_natCast _
  simp only [page, hn', if_false, e1, e2]

/-- Order of the stages: window, then filter, then paging — the look-up is literally their
    composition (read off `scanLookup`). -/
theorem order_bounds_filter_limit (g : SGraph) (m : Method) (a : LArgs) (lo : LookupOpts) (fo : FilterOpts)
    (h1 : lo.latestAnchor = false) (h2 : lo.filter = some fo) (h3 : fo.op ≠ .unknown)
    (h4 : fo.field = .predicate ∨ fo.field = .object) :
    scanLookup g m a lo =
      .ok (page lo.maxElements lo.offset (sortByStr (filt fo ((g.filter (matchesArgs m a)).filter (inWindow lo))))) := by
  have h3' : (fo.op == FilterOp.unknown) = false := by simp [h3]
  have h4' : (fo.field != .predicate && fo.field != .object) = false := by
    rcases h4 with h | h <;> simp [h]
  simp [scanLookup, h1, h2, h3', h4']

/-! Non-vacuity -/
example : (0 : Int) < ({ maxElements := 2, offset := 1 } : LookupOpts).maxElements ∨
    ({ maxElements := 2, offset := 1 } : LookupOpts).maxElements * ({ maxElements := 2, offset := 1 } : LookupOpts).offset ≤ 0 :=
  Or.inl (by decide)

end BW.Props.C09

#print axioms BW.Props.C09.facts_wf
#print axioms BW.Props.C09.lookup_opts
#print axioms BW.Props.C09.window_closed
#print axioms BW.Props.C09.filt_kind
#print axioms BW.Props.C09.filt_latest
#print axioms BW.Props.C09.checker_is_page
#print axioms BW.Props.C09.pages_prefix
#print axioms BW.Props.C09.pages_partition
#print axioms BW.Props.C09.page_segment
#print axioms BW.Props.C09.order_bounds_filter_limit
