/-
C03 — SELECT returns exactly the solutions of its graph pattern.

Reference semantics: `BW.Spec.Query.solutions` (join, clause by clause, of the matches of each clause
on a scan of the queried graphs).  Planner model: `BW.Model.Query` (the three strategies of
processClause over the store model).

What is PROVED here: (1) properties of the reference semantics that the property text states (a match
respects constants and time bounds; a mandatory step only ever joins compatible matches; monotonicity);
(2) the planner's data access is the reference's clause match (`fetch_is_reference_match`,
`triple_to_row_is_reference`); (3) every strategy of `processClause` is one join step of the reference
(`one_clause_is_one_join`, `per_row_strategy_is_join`, `specialisation_is_transparent`); (4) the table
`processGraphPattern` leaves is the set of solutions, for every pattern (`select_pattern_eq_solutions`).
The equalities are between SETS of rows up to the zone in which an anchor is written — multiplicities are
not claimed (the property leaves them open when a triple is stored in two listed graphs; clauses that bind
nothing and interval predicates make them differ too) — and hold whenever the planner model succeeds, under
hypotheses about the statement and the data that are spelled out at `select_pattern_eq_solutions`.
The projection onto the selected bindings and the stages after it are C11–C13's; the tie of this model to
the code is the three-way `query` correspondence (implementation / planner model / reference).
-/
import BW.Proofs.Query
import BW.Proofs.PlannerFetch3
import BW.Proofs.PlannerStep6
import BW.Proofs.PlannerStep11
import BW.Proofs.PlannerCorollaries
import BW.Proofs.Projection
import BW.Proofs.Hooks
import BW.Proofs.HooksHead
import BW.Proofs.OnePerAssignment

namespace BW.Props.C03
open BW.Model BW.Spec BW.Proofs.Query BW.Proofs.Planner BW.Proofs.Store BW.Proofs.ClauseOrder

/-- A clause matches a triple only if its constants equal the triple's parts (predicates: identifier,
    kind, instant) and the predicate lies inside the clause-level and global time bounds. -/
theorem match_respects_constants_and_bounds (c : Clause) (w : Window) (t : Triple) (r : Row)
    (h : matchClause c w t = some r) : constsMatch c t = true ∧ w.holds t.p = true :=
  matchClause_sound c w t r h

/-- An immutable predicate constant matches only immutable triples, a temporal one only triples
    anchored at that instant. -/
theorem pred_constant_kind (p q : Pred) (h : predSame p q = true) :
    p.id = q.id ∧ p.anchor.map (·.nanos) = q.anchor.map (·.nanos) := by
  simpa [predSame] using h

/-- The window is the closed interval; immutable predicates are always inside. -/
theorem window_closed (w : Window) (p : Pred) :
    w.holds p = true ↔ (p.anchor = none ∨ ∃ t, p.anchor = some t ∧ (∀ l, w.lower = some l → l ≤ t.nanos) ∧ (∀ u, w.upper = some u → t.nanos ≤ u)) := by
  cases p with
  | imm i => simp [Window.holds, Pred.anchor]
  | tmp i t =>
    simp only [Window.holds, Pred.anchor, Bool.and_eq_true]
    cases hl : w.lower <;> cases hu : w.upper <;> simp

/-- Every row of a mandatory join step is an input row extended by a match of the clause on some
    stored triple that agrees with it on the shared bindings: no row is not a solution. -/
theorem no_row_is_not_a_solution (scan : List Triple) (glo ghi : Option Int) (rows : List Row) (c : Clause)
    (hc : c.optional = false) (r' : Row) (h : r' ∈ joinClause scan glo ghi rows c) :
    ∃ r ∈ rows, ∃ t ∈ scan, ∃ m, matchClause c (clauseWindow glo ghi c r) t = some m ∧ compatible r m = true ∧ r' = r.merge m :=
  joinClause_mandatory scan glo ghi rows c hc r' h

/-- … and no solution is missing: every compatible match of every input row is present. -/
theorem no_solution_is_missing (scan : List Triple) (glo ghi : Option Int) (rows : List Row) (c : Clause)
    (hc : c.optional = false) (r : Row) (hr : r ∈ rows) (t : Triple) (ht : t ∈ scan) (m : Row)
    (hm : matchClause c (clauseWindow glo ghi c r) t = some m) (hcomp : compatible r m = true) :
    r.merge m ∈ joinClause scan glo ghi rows c := by
  unfold joinClause
  simp only [hc, Bool.false_eq_true, if_false, List.mem_flatMap]
  exact ⟨r, hr, List.mem_map.mpr ⟨m, List.mem_filter.mpr ⟨List.mem_filterMap.mpr ⟨t, ht, hm⟩, hcomp⟩, rfl⟩⟩

/-- A binding has one value per row: a join never changes a value that is already bound. -/
theorem binding_keeps_its_value (a b : Row) (k : Bytes) (h : a.has k = true) : (a.merge b).get k = a.get k :=
  merge_keeps a b k h

/-- Planner model: the per-row join only merges fetched rows that hold the same value for every
    shared binding (the D21 repair), and every produced row extends the row it came from. -/
theorem planner_joins_only_compatible (r : Row) (bs : List Bytes) (fetched : List Row) (r' : Row)
    (h : r' ∈ joinRow r false bs fetched) : ∃ nr ∈ fetched, compatibleRows r nr = true ∧ r' = r.merge nr :=
  joinRow_compatible r bs fetched r' h

theorem planner_join_extends (r : Row) (opt : Bool) (bs : List Bytes) (fetched : List Row) :
    ∀ r' ∈ joinRow r opt bs fetched, Extends r' r := joinRow_extends r opt bs fetched

/-- Adding triples never removes solutions of a pattern without OPTIONAL (also used by C14). -/
theorem monotone (scan scan' : List Triple) (glo ghi : Option Int) (cs : List Clause)
    (hc : ∀ c ∈ cs, c.optional = false) (hs : ∀ t ∈ scan, t ∈ scan') :
    ∀ r ∈ solutions scan glo ghi cs, r ∈ solutions scan' glo ghi cs :=
  solutions_mono scan scan' glo ghi cs hc hs

/-! Non-vacuity: a concrete clause matches a concrete triple. -/
def exT : Triple := ⟨⟨[47, 117], [97]⟩, .imm [112], .node ⟨[47, 117], [98]⟩⟩
def exC : Clause := { sBinding := [63, 115], p := some (.imm [112]), oBinding := [63, 111] }
example : (matchClause exC {} exT).isSome = true := by decide

/-! ### The planner's fetch is the reference's match -/

/-- For every clause — any of subject, predicate, object fixed or open; bindings, aliases, TYPE / ID / AT
    extractions, `"id"@[?t]` and `"id"@[lo,hi]` — and every global window, the planner's data access
    (`simpleFetch`: the driver look-up chosen by the fixed positions, over every FROM graph, then
    `tripleToRow` under `shouldIgnoreTriple`) succeeds and returns, as a set and up to the zone in which
    an anchor is written, exactly the rows the reference semantics binds on a scan of those graphs.
    Hypotheses: the graphs satisfy the store's index invariant (every reachable graph, C01) and their
    views are those of their triples; no FILTER option; the clause's constants and the stored values are
    told apart by their UUID pre-images (they are not for the known findings D02/D04); the ID alias of
    the object is not named after the object itself (an idiom the suite pins). -/
theorem fetch_is_reference_match {F : Facts} (hF : Facts.WF F = true) (gs : List QGraph) (hg : GraphsOK F gs)
    (c : Clause) (hid : IdAliasPlain c) (lo : QOpts) (hfil : lo.filter = none)
    (hap : Apart gs c) (hapA : AnchorsApart gs c) :
    ∃ rows, simpleFetch F gs c lo 0 = .ok rows ∧
      SetEq rows (specRows c (fetchWindow lo c) (gs.flatMap scanOf)) :=
  simpleFetch_spec hF gs hg c hid lo hfil hap hapA

/-- One triple, one clause: the Go function `tripleToRow` is the left fold of the reference's binding
    steps (same success, same row). -/
theorem triple_to_row_is_reference (t : Triple) (c : Clause) (hid : IdAliasPlain c) :
    tripleToRow t c = (match specBind c t with | some r => T2R.row r | none => T2R.skip) :=
  tripleToRow_eq t c hid

/-! ### The per-row strategy is the reference's join step -/

/-- `specifyClauseWithTable` — for every row of the table: fix the clause's open positions from the row's
    values (`specialise`), tighten the window by the row's bound aliases, fetch (or probe, when the
    specialised clause extracts nothing), keep the fetched rows that agree with the row, merge — yields,
    whenever it succeeds, exactly the rows of the reference's join of the table with the clause: as a set,
    up to the zone in which an anchor is written.  For every clause (OPTIONAL or not, any extraction,
    anchor bindings, bounds and bound aliases — those of the object's interval, `"id"@[?lo,?hi]` in object
    position, included: `joinClauseO` reads that interval from the row), every table whose rows repeat no key and hold values of
    the universe, every window.  The universe hypothesis (`Universe`: the values in play have distinct
    UUID pre-images) is what the known findings D02/D04 violate. -/
theorem per_row_strategy_is_join {F : Facts} (hF : Facts.WF F = true) {gs : List QGraph} (hg : GraphsOK F gs)
    (U : Universe gs) {c : Clause} {lo : QOpts} (hwf : ClauseWF c) (hcin : ClauseIn U c) (hfil : lo.filter = none)
    (rows out : List Row) (hrows : ∀ r ∈ rows, RowOK U r) (h : specifyAll F gs c lo 0 rows = .ok out) :
    SetEq out (joinClauseO (gs.flatMap scanOf) (nl lo.lower) (nl lo.upper) rows c) ∧ ∀ r' ∈ out, RowOK U r' :=
  specifyAll_spec hF hg U hwf hcin hfil rows out hrows h

/-- The constants `specialise` adds are implied: a match of the clause that agrees with the row on the
    shared bindings matches the specialised clause too, and nothing else does. -/
theorem specialisation_is_transparent {r : Row} {c c' : Clause} {lo lo' : QOpts} (h : specialise r c lo = .ok (c', lo'))
    (w : Window) (ht : Tight c w) (t : Triple) (m : Row) :
    (matchClause c' w t = some m ∧ compatible r m = true) ↔ (matchClause c w t = some m ∧ compatible r m = true) :=
  match_specialised (specialise_strip h) (specialise_implied h).1 (specialise_implied h).2 ht t m

/-! ### The planner's table is the set of solutions -/

/-- **C03, for every pattern.** `processGraphPattern` — clause after clause, whichever of its strategies
    `processClause` picks: existence test of a clause of constants, probe of a clause that binds nothing,
    cross join / left outer join with a clause sharing no binding, per-row specialisation otherwise — leaves,
    whenever it succeeds, a table whose rows are exactly the solutions of the reference semantics
    (`solutionsO`: the join, clause by clause, of what each clause matches on a scan of the FROM graphs,
    OPTIONAL as a left outer join, the interval of an object predicate bounded by bindings read from the row): no solution is missing and no row is not a solution, as sets of rows and
    up to the zone in which an anchor is written.
    Hypotheses, all about the statement and the data, none about the execution: the graphs satisfy the
    store's index invariant and their views are those of their triples (`GraphsOK`); the values in play
    have distinct UUID pre-images (`Universe` — false exactly for the known findings D02/D04); every clause
    is what the parser builds (`PatClause`: a position is a constant or open, bound aliases only on
    `"id"@[?lo,?hi]` and in place of a constant bound, the ID alias not named after its object, no clause made only
    of constants and bound aliases); the first clause is mandatory and extracts something (otherwise the solutions may be the empty
    assignment, which a table cannot hold: known finding D35); no FILTER; the statement limit is not
    pushed down (`stmLimit = 0`; the push-down condition is C12's).
    Multiplicities are not claimed (the property leaves them open when a triple is in two listed graphs);
    errors are C08's and C20's subject. -/
theorem select_pattern_eq_solutions {F : Facts} (hF : Facts.WF F = true) {gs : List QGraph} (hg : GraphsOK F gs)
    (U : Universe gs) (lo : QOpts) (c0 : Clause) (cs : List Clause) (h0 : PatClause U c0)
    (hrest : ∀ c ∈ cs, PatClause U c) (hopt : c0.optional = false) (hex : c0.extractsNothing = false) (out : Tbl)
    (h : processPattern F gs (c0 :: cs) lo 0 (fun _ => none) = .ok out) :
    SetEq out.rows (solutionsO (gs.flatMap scanOf) (nl lo.lower) (nl lo.upper) (c0 :: cs)) :=
  processPattern_spec hF hg U lo c0 cs h0 hrest hopt hex out h

/-- … which, for patterns without object intervals bounded by bindings, is the plain `solutions`. -/
theorem select_pattern_eq_solutions_plain {F : Facts} (hF : Facts.WF F = true) {gs : List QGraph} (hg : GraphsOK F gs)
    (U : Universe gs) (lo : QOpts) (c0 : Clause) (cs : List Clause) (h0 : PatClause U c0)
    (hrest : ∀ c ∈ cs, PatClause U c) (hno : ∀ c ∈ c0 :: cs, c.oLowerAlias = [] ∧ c.oUpperAlias = [])
    (hopt : c0.optional = false) (hex : c0.extractsNothing = false) (out : Tbl)
    (h : processPattern F gs (c0 :: cs) lo 0 (fun _ => none) = .ok out) :
    SetEq out.rows (solutions (gs.flatMap scanOf) (nl lo.lower) (nl lo.upper) (c0 :: cs)) :=
  processPattern_spec_plain hF hg U lo c0 cs h0 hrest hno hopt hex out h

/-- **C03 end to end for SELECT without GROUP BY**: what the statement shows — the planner's table after the plain
    projection (`projectPlain` maps `projectRow` over the rows) — is, output column by output column, the reference's
    simultaneous projection of the solutions: every shown row is the projection of a solution, every solution's
    projection is shown (as sets of rows, anchors up to zone). Hypotheses: those of `select_pattern_eq_solutions`, the
    output names distinct, and every row holds the projected bindings (the semantic checks of the SELECT list). -/
theorem select_shows_the_projected_solutions {F : Facts} (hF : Facts.WF F = true) {gs : List QGraph} (hg : GraphsOK F gs)
    (U : Universe gs) (lo : QOpts) (c0 : Clause) (cs : List Clause) (h0 : PatClause U c0)
    (hrest : ∀ c ∈ cs, PatClause U c) (hopt : c0.optional = false) (hex : c0.extractsNothing = false) (out : Tbl)
    (h : processPattern F gs (c0 :: cs) lo 0 (fun _ => none) = .ok out)
    (ps : List Proj) (hb : ∀ p ∈ ps, p.binding ≠ []) (hn : (ps.map Proj.out).Nodup)
    (hr : ∀ r ∈ out.rows, ∀ p ∈ ps, r.has p.binding = true) :
    (∀ r ∈ out.rows, ∃ x ∈ solutionsO (gs.flatMap scanOf) (nl lo.lower) (nl lo.upper) (c0 :: cs),
      ∀ p ∈ ps, ((projectRow ps r).get p.out).map normCell = ((BW.Spec.project ps x).get p.out).map normCell) ∧
    (∀ x ∈ solutionsO (gs.flatMap scanOf) (nl lo.lower) (nl lo.upper) (c0 :: cs), ∃ r ∈ out.rows,
      ∀ p ∈ ps, ((projectRow ps r).get p.out).map normCell = ((BW.Spec.project ps x).get p.out).map normCell) :=
  select_plain_spec hF hg U lo c0 cs h0 hrest hopt hex out h ps hb hn hr

/-- One clause, whatever the strategy. -/
theorem one_clause_is_one_join {F : Facts} (hF : Facts.WF F = true) {gs : List QGraph} (hg : GraphsOK F gs)
    (U : Universe gs) {tbl tbl' : Tbl} {unres : Bool} (ht : TblOK U tbl) {c : Clause} {lo : QOpts} (hc : PatClause U c)
    (hfil : lo.filter = none) (hfirst : tbl.bindings = [] → c.optional = false ∧ c.extractsNothing = false)
    (h : processClause F gs tbl c lo 0 = .ok (tbl', unres)) :
    TblOK U tbl' ∧ (tbl'.bindings ≠ []) ∧
    (unres = false → SetEq (absRows tbl') (joinClauseO (gs.flatMap scanOf) (nl lo.lower) (nl lo.upper) (absRows tbl) c)) ∧
    (unres = true → joinClauseO (gs.flatMap scanOf) (nl lo.lower) (nl lo.upper) (absRows tbl) c = []) :=
  processClause_spec hF hg U ht hc.wf hc.consts hc.inU hfil hc.objBoundExcl hfirst (fun he hb => absurd (hc.noBareAliases he) hb) h

/-- Object predicates bounded by bindings (`?s ?p "id"@[?lo,?hi]`: the interval is read from the row, `solutionsO`)
    are inside the planner theorems above; on patterns without them `solutionsO` is `solutions`. The pinned tree never
    read those bounds (1eb6e97): the former hypothesis `noObjAliases` of `ClauseWF` was taken for a guarantee of the
    parser, the hooks model showed it is not, and the real code at the excluded point returned rows that are not
    solutions. The hypothesis is gone: on a row for which it succeeds `addSpecifiedData` does with such a clause what it
    does with the clause that row sees (`per_row_clause_is_the_clause_the_row_sees`). -/
theorem reference_extends_to_object_bounds (scan : List Triple) (glo ghi : Option Int) (cs : List Clause)
    (h : ∀ c ∈ cs, c.oLowerAlias = [] ∧ c.oUpperAlias = []) : solutionsO scan glo ghi cs = solutions scan glo ghi cs :=
  solutionsO_eq scan glo ghi cs h

/-- On a row for which it succeeds, the per-row step treats a clause whose object interval is bounded by bindings
    exactly as the clause that row sees — the interval read from the row, the bound aliases gone — and the row has
    those aliases. -/
theorem per_row_clause_is_the_clause_the_row_sees (F : Facts) (gs : List QGraph) (r : Row) (c : Clause) (q : QOpts) (out : List Row)
    (h : addSpecifiedData F gs r c q 0 = .ok out) :
    addSpecifiedData F gs r (rowClause c r) q 0 = .ok out ∧
    (c.oLowerAlias ≠ [] → r.has c.oLowerAlias = true) ∧ (c.oUpperAlias ≠ [] → r.has c.oUpperAlias = true) :=
  addSpecifiedData_rowClause F gs r c q out h

/-- Non-vacuity: a clause `?s ?p "q"@[?lo,?hi]` and a row holding `?lo`, `?hi`: the row's clause has the interval. -/
example : (rowClause { oID := [113], oTemporal := true, oLowerAlias := [63, 108], oUpperAlias := [63, 104], sBinding := [63, 115] }
    [([63, 108], .time ⟨5, 0⟩), ([63, 104], .time ⟨9, 0⟩)]).oLower = some ⟨5, 0⟩ := by decide

/-! ### One row per assignment -/

/-- The property counts solutions by assignment, the reference by combination of matching triples. They are the
    same count wherever the row shows which triple each clause matched: over a scan in which no triple occurs
    twice (graphs hold sets, and no triple is stored in two listed graphs) the solutions of a pattern of
    mandatory clauses each of whose positions is a constant, a binding / alias, or `"id"@[?t]` are pairwise
    different rows (anchors compared as instants). Together with `select_pattern_eq_solutions` (the planner's
    table and the solutions are the same set): every assignment is returned, nothing else is, and the
    reference lists each once. (Clauses with an interval whose anchor is not shown — `"id"@[lo,hi]` without
    `AT` — and OPTIONAL clauses are outside: the property leaves their multiplicities open.) -/
theorem one_row_per_assignment (scan : List Triple) (hs : BW.Proofs.OnePerAssignment.ScanDistinct scan) (glo ghi : Option Int)
    (cs : List Clause) (hd : ∀ c ∈ cs, BW.Proofs.OnePerAssignment.Determined c ∧ c.optional = false) :
    (solutions scan glo ghi cs).Pairwise fun a b => ¬ BW.Proofs.ClauseOrder.RowEq a b :=
  BW.Proofs.OnePerAssignment.solutions_distinct scan hs glo ghi cs hd

/-- … because such a clause's row determines the triple it matched. -/
theorem row_determines_the_triple {c : Clause} (hd : BW.Proofs.OnePerAssignment.Determined c) (hopt : c.optional = false)
    {w w' : Window} {t t' : Triple} {m m' : Row} (h : matchClause c w t = some m) (h' : matchClause c w' t' = some m')
    (he : BW.Proofs.ClauseOrder.RowEq m m') : BW.Proofs.Planner.TripleEq t t' :=
  BW.Proofs.OnePerAssignment.row_determines_triple hd hopt h h' he

/-- Non-vacuity: `?s "p"@[?t] ?o` is determined; `?s "p"@[,] ?o` is not. -/
example : BW.Proofs.OnePerAssignment.Determined { sBinding := [63, 115], pID := [112], pAnchorBinding := [63, 116], pTemporal := true, oBinding := [63, 111] } ∧
    ¬ BW.Proofs.OnePerAssignment.Determined { sBinding := [63, 115], pID := [112], pTemporal := true, oBinding := [63, 111] } := by
  constructor
  · exact ⟨Or.inr (Or.inl (by decide)), Or.inr (Or.inr (Or.inr ⟨by decide, Or.inl (by decide)⟩)), Or.inr (Or.inl (by decide))⟩
  · rintro ⟨_, h, _⟩
    rcases h with h | h | h | ⟨_, h | h⟩ <;> simp at h

/-! ### Projected onto the selected bindings -/

/-- The plain projection of the planner (`projectPlain`: for each row, read the cell of every projected
    binding, then write the aliases) shows in every output column the cell the reference's simultaneous
    projection shows — for every statement whose output names are distinct, whatever the aliases are called
    (`?a as ?b, ?b as ?c` included: before 1cfe61b the aliases were copied one after the other and the second
    column showed `?a`), and rows that hold every projected binding. -/
theorem projection_is_simultaneous (ps : List Proj) (rows : List Row) (hb : ∀ p ∈ ps, p.binding ≠ [])
    (hn : (ps.map Proj.out).Nodup) (hr : ∀ r ∈ rows, ∀ p ∈ ps, r.has p.binding = true) :
    ∀ r ∈ rows, ∀ p ∈ ps, (projectRow ps r).get p.out = (project ps r).get p.out :=
  fun r hr' p hp => BW.Proofs.Projection.projection_spec ps r hb hn (hr r hr') p hp

/-- Non-vacuity, at the point the old hypothesis excluded: `?s as ?o, ?o as ?x` on a row `?s ↦ a, ?o ↦ b`
    shows `a` under `?o` and `b` under `?x`. -/
example : let r : Row := [([63, 115], .str [97]), ([63, 111], .str [98])]
    let ps : List Proj := [{ binding := [63, 115], alias := [63, 111] }, { binding := [63, 111], alias := [63, 120] }]
    ((projectRow ps r).get [63, 111], (projectRow ps r).get [63, 120]) = (some (.str [97]), some (.str [98])) := by decide

/-! ### From the text to the clause -/

/-- The WHERE-clause hooks of the semantic layer build, from the tokens of a clause, exactly the clause the
    text denotes: the subject hook over the subject's tokens (after `OPTIONAL {` for an optional clause), the
    predicate hook over the predicate's, the object hook over the object's — constants (node, full predicate,
    literal), bindings, `"id"@[?t]`, `"id"@[lo,hi]` with times or bound aliases, and the `AS` / `TYPE` / `ID` /
    `AT` aliases in any order — each in the field of its position, nothing else touched. Which symbol's
    tokens reach which hook is regenerated from the running grammar (`C18.routing_wf`); the whole path
    text → tokens → parser events → hooks → clauses is run against the real hooks on every generated
    statement (`hooks` correspondence). -/
theorem where_clause_means_its_tokens (a : BW.Proofs.Hooks.ClauseAST) (hv : a.Valid) :
    (match BW.Proofs.Hooks.runPart BW.Model.Hooks.subjStep {} none
        (BW.Proofs.Hooks.optToks a ++ BW.Proofs.Hooks.sTok a.sb :: BW.Proofs.Hooks.modToks a.smods) with
     | none => none
     | some (c1, _) =>
       match BW.Proofs.Hooks.runPart BW.Model.Hooks.predStep c1 none (BW.Proofs.Hooks.pTok a.pb :: BW.Proofs.Hooks.modToks a.pmods) with
       | none => none
       | some (c2, _) =>
         (BW.Proofs.Hooks.runPart BW.Model.Hooks.objStep c2 none (BW.Proofs.Hooks.oTok a.ob :: BW.Proofs.Hooks.modToks a.omods)).map (·.1))
      = some (BW.Proofs.Hooks.denote a) :=
  BW.Proofs.Hooks.clause_denote a hv

/-- Non-vacuity: the hypotheses hold for a one-triple graph and a clause with a constant predicate. -/
def exV : TView := { id := 0, ks := preNode exT.s, pid := exT.p.id, pnano := none, ko := preNode ⟨[47, 117], [98]⟩ }
def exQ : QGraph := { g := Graph.empty.add1 Facts.reference exV, uni := fun _ => some exT }
example : IdAliasPlain exC := Or.inl rfl
example : GraphsOK Facts.reference [exQ] := by
  intro q hq
  simp only [List.mem_singleton] at hq
  subst hq
  refine ⟨inv_add1 reference_wf (inv_empty _) exV, ?_⟩
  intro v hv
  simp [exQ, Graph.add1, Graph.empty, Facts.reference] at hv
  subst hv
  exact ⟨exT, rfl, rfl, rfl, rfl, rfl⟩
example : Apart [exQ] exC := ⟨fun s hs => by simp [exC] at hs, fun o ho => by simp [exC] at ho⟩
example : AnchorsApart [exQ] exC := by
  intro p hp q hq t ht _
  simp only [List.mem_singleton] at hq
  subst hq
  simp [exC] at hp
  subst hp
  simp [scanOf, QGraph.triples, exQ, Graph.add1, Graph.empty, Facts.reference] at ht
  subst ht
  rfl

/-- A universe for the one-triple graph: its two nodes and its predicate. -/
def exU : Universe [exQ] where
  cell v := v = .node exT.s ∨ v = .node ⟨[47, 117], [98]⟩ ∨ v = .pred (.imm [112])
  ids _ := False
  norm := by
    intro v v' h hv
    rcases hv with e | e | e <;> subst e
    · cases v' <;> simp [normCell] at h
      exact Or.inl (by rw [h])
    · cases v' <;> simp [normCell] at h
      exact Or.inr (Or.inl (by rw [h]))
    · cases v' <;> simp [normCell, normPredC] at h
      rename_i p
      cases p <;> simp [normPredC] at h
      exact Or.inr (Or.inr (by rw [h]))
  stored := by
    intro q hq t ht
    simp only [List.mem_singleton] at hq; subst hq
    simp [scanOf, QGraph.triples, exQ, Graph.add1, Graph.empty, Facts.reference] at ht
    subst ht
    exact ⟨Or.inl rfl, Or.inr (Or.inr rfl), Or.inr (Or.inl rfl)⟩
  anchor := by intro i ta h; rcases h with e | e | e <;> cases e
  built := by intro i ta h; exact h.elim
  injNode := by
    intro n n' h h' he
    rcases h with e | e | e <;> rcases h' with e' | e' | e' <;> cases e <;> cases e' <;> first | rfl | (exfalso; revert he; decide)
  injObj := by
    intro o o' h h' he
    have key : ∀ x : Obj, (objCell x = .node exT.s ∨ objCell x = .node ⟨[47, 117], [98]⟩ ∨ objCell x = .pred (.imm [112])) →
        x = .node exT.s ∨ x = .node ⟨[47, 117], [98]⟩ ∨ x = .pred (.imm [112]) := by
      intro x hx
      cases x <;> simp [objCell] at hx ⊢ <;> exact hx
    rcases key o h with e | e | e <;> rcases key o' h' with e' | e' | e' <;> subst e <;> subst e' <;>
      first | rfl | (exfalso; revert he; decide)
  injTime := by intro a b h; rcases h with e | e | e <;> cases e

example : PatClause exU exC :=
  ⟨⟨Or.inl rfl, fun _ => ⟨rfl, rfl⟩⟩, ⟨fun h => by simp [exC] at h, fun _ => ⟨rfl, rfl, rfl⟩, fun h => by simp [exC] at h⟩,
   ⟨fun s hs => by simp [exC] at hs, fun p hp => by simp [exC] at hp; subst hp; exact Or.inr (Or.inr rfl),
    fun o ho => by simp [exC] at ho, fun h => absurd rfl h, fun h => absurd rfl h⟩, fun h => by simp [exC, Clause.extractsNothing] at h, ⟨fun h => absurd rfl h, fun h => absurd rfl h⟩⟩
example : exC.optional = false ∧ exC.extractsNothing = false := by decide

/-- The SELECT list means what its tokens say: the projection hook (`varAccumulator`) over the tokens of a
    list of projections — `?b`, `?b as ?a`, `count(?b) as ?a`, `count(distinct ?b) as ?a`, `sum(?b) as ?a`,
    separated by commas — followed by the flush the end of WHERE forces, has collected exactly the
    projections written, in order, and changed nothing else of the statement. -/
theorem select_list_means_its_tokens (ps : List BW.Proofs.HooksHead.PAst) (hps : ∀ p ∈ ps, p.ok)
    (h : BW.Model.Hooks.Head) (hw : h.wproj = BW.Proofs.HooksHead.emptyProj) :
    ∃ h', BW.Proofs.HooksHead.varRun h none (BW.Proofs.HooksHead.listToks ps) = some (h', none) ∧
      h'.flush = { h with projs := h.projs ++ ps.map BW.Proofs.HooksHead.PAst.denote } :=
  BW.Proofs.HooksHead.select_list_denote ps hps h hw

/-- FROM means what it says: the input graphs are the bindings listed, in order. -/
theorem from_means_its_tokens (gs : List Bytes) (h : BW.Model.Hooks.Head) :
    BW.Proofs.HooksHead.optRun BW.Model.Hooks.graphStep h (BW.Proofs.HooksHead.commaToks gs) =
      some { h with graphs := h.graphs ++ gs } :=
  BW.Proofs.HooksHead.from_denote gs h

/-- The global time bound means what it says, whatever an earlier statement left in the hook's closure:
    `BEFORE t` sets the upper bound and only it, `AFTER t` the lower bound and only it, `BETWEEN t, t'` both. -/
theorem global_bound_means_its_tokens (h : BW.Model.Hooks.Head) (cur : Nat) (t t' : Time) :
    (BW.Proofs.HooksHead.boundsRun h { cur := cur } [BW.Proofs.HooksHead.tk .before, BW.Proofs.HooksHead.timeTk t]).map (·.1)
      = some { h with upper := some t } ∧
    (BW.Proofs.HooksHead.boundsRun h { cur := cur } [BW.Proofs.HooksHead.tk .after, BW.Proofs.HooksHead.timeTk t]).map (·.1)
      = some { h with lower := some t } ∧
    (BW.Proofs.HooksHead.boundsRun h { cur := cur } [BW.Proofs.HooksHead.tk .between, BW.Proofs.HooksHead.pairTk t t']).map (·.1)
      = some { h with lower := some t, upper := some t' } :=
  BW.Proofs.HooksHead.global_bound_denote h cur t t'

/-- Non-vacuity: `select ?x, count(distinct ?y) as ?n` yields those two projections. -/
example : ((BW.Proofs.HooksHead.varRun {} none (BW.Proofs.HooksHead.listToks [.plain [63, 120], .count [63, 121] [63, 110] true])).map
    (fun r => r.1.flush.projs.map (fun p => (p.binding, p.alias, p.distinct)))) = some [([63, 120], [], false), ([63, 121], [63, 110], true)] := by decide

end BW.Props.C03

#print axioms BW.Props.C03.match_respects_constants_and_bounds
#print axioms BW.Props.C03.pred_constant_kind
#print axioms BW.Props.C03.window_closed
#print axioms BW.Props.C03.no_row_is_not_a_solution
#print axioms BW.Props.C03.no_solution_is_missing
#print axioms BW.Props.C03.binding_keeps_its_value
#print axioms BW.Props.C03.planner_joins_only_compatible
#print axioms BW.Props.C03.planner_join_extends
#print axioms BW.Props.C03.monotone
#print axioms BW.Props.C03.fetch_is_reference_match
#print axioms BW.Props.C03.triple_to_row_is_reference
#print axioms BW.Props.C03.per_row_strategy_is_join
#print axioms BW.Props.C03.specialisation_is_transparent
#print axioms BW.Props.C03.select_pattern_eq_solutions
#print axioms BW.Props.C03.select_pattern_eq_solutions_plain
#print axioms BW.Props.C03.select_shows_the_projected_solutions
#print axioms BW.Props.C03.per_row_clause_is_the_clause_the_row_sees
#print axioms BW.Props.C03.one_clause_is_one_join
#print axioms BW.Props.C03.projection_is_simultaneous
#print axioms BW.Props.C03.where_clause_means_its_tokens
#print axioms BW.Props.C03.select_list_means_its_tokens
#print axioms BW.Props.C03.from_means_its_tokens
#print axioms BW.Props.C03.global_bound_means_its_tokens
#print axioms BW.Props.C03.reference_extends_to_object_bounds
#print axioms BW.Props.C03.one_row_per_assignment
#print axioms BW.Props.C03.row_determines_the_triple
