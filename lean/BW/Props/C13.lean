/-
C13 — HAVING keeps exactly the rows satisfying its boolean expression.
-/
import BW.Proofs.QueryPost
import BW.Proofs.Having

namespace BW.Props.C13
open BW.Model BW.Proofs.QueryPost

/-- HAVING keeps exactly the rows for which its expression is true and leaves them unchanged and in
    order (when no row raises an evaluation error; an error fails the query). -/
theorem having_filter (S : Strs) (e : HExpr) (rows : List Row) (f : Row → Bool)
    (hf : ∀ r ∈ rows, evalH S r e = .ok (f r)) : havingFilter S e rows = .ok (rows.filter f) :=
  havingFilter_spec S e rows f hf

/-- NOT, AND, OR have their usual truth-functional meaning. -/
theorem not_truth (S : Strs) (r : Row) (e : HExpr) (b : Bool) (h : evalH S r e = .ok b) : evalH S r (.not e) = .ok (!b) :=
  evalH_not S r e b h
theorem and_truth (S : Strs) (r : Row) (e₁ e₂ : HExpr) (a b : Bool) (h₁ : evalH S r e₁ = .ok a) (h₂ : evalH S r e₂ = .ok b) :
    evalH S r (.and e₁ e₂) = .ok (a && b) := evalH_and S r e₁ e₂ a b h₁ h₂
theorem or_truth (S : Strs) (r : Row) (e₁ e₂ : HExpr) (a b : Bool) (h₁ : evalH S r e₁ = .ok a) (h₂ : evalH S r e₂ = .ok b) :
    evalH S r (.or e₁ e₂) = .ok (a || b) := evalH_or S r e₁ e₂ a b h₁ h₂

/-- Numbers compare numerically: `?n < "j"^^type:int64` holds exactly when n < j. -/
theorem compare_int_numeric (S : Strs) (r : Row) (l : Bytes) (i j : Int) (h : r.get l = some (.lit (.int i))) :
    evalH S r (.cmpLit .lt l (some (.int j))) = .ok (decide (i < j)) := cmpLit_int S r l i j h

/-- A comparison of a value with a constant of a different kind never holds. -/
theorem other_kind_never_holds (S : Strs) (r : Row) (o : HOp) (l : Bytes) (n : Node) (c : Lit)
    (h : r.get l = some (.node n)) : evalH S r (.cmpLit o l (some c)) = .ok false := cmpLit_other_kind S r o l n c h
theorem int_vs_text_never_holds (S : Strs) (r : Row) (o : HOp) (l : Bytes) (i : Int) (t : Bytes)
    (h : r.get l = some (.lit (.int i))) : evalH S r (.cmpLit o l (some (.text t))) = .ok false := cmpLit_int_vs_text S r o l i t h

/-- The builder accepts `binding op operand`, `NOT e`, `(e)`, `(e) AND/OR e` — witnesses. -/
example : (newEvaluator [.binding [63], .op .lt, .lit (some (.int 1))]).isSome = true := by decide
example : (newEvaluator [.not, .lpar, .binding [63], .op .eq, .binding [64], .rpar, .and, .binding [63], .op .gt, .lit (some (.int 2))]).isSome = true := by decide
/-- … and rejects what it cannot build, e.g. `a = b AND c = d` without parentheses. -/
example : (newEvaluator [.binding [63], .op .eq, .binding [64], .and, .binding [65], .op .eq, .binding [66]]).isSome = false := by decide

/-- The evaluator the engine builds is the parse tree of the expression: whenever `NewEvaluator` accepts the
    tokens of a HAVING clause, the expression it builds is the reference reading of those tokens
    (`BW.Spec.specH`: comparisons are atoms, `NOT` covers everything to its right, `AND` / `OR` nest to the
    right) — of all of them, or of all but the one closing parenthesis `NewEvaluator` tolerates at the end (the
    grammar never derives such a list). Where the engine refuses a token list the reference can read (a
    comparison without parentheses followed by `AND` / `OR`) the statement is rejected; an implementation that
    accepts it is compared with the reference's reading (tie). -/
theorem evaluator_is_the_parse_tree (toks : List HTok) (e : HExpr) (h : newEvaluator toks = some e) :
    BW.Spec.specEvaluator toks = some e ∨ BW.Spec.specH (toks.length + 1) toks = some (e, [.rpar]) :=
  BW.Proofs.Having.evaluator_is_parse_tree toks e h

/-- Non-vacuity: `(?a = ?b) and not ?c < ?d` is accepted and read as `and (= a b) (not (< c d))`; the reference
    also reads `?a = ?b and ?c = ?d`, which the engine refuses. -/
example : (newEvaluator [.lpar, .binding [97], .op .eq, .binding [98], .rpar, .and, .not, .binding [99], .op .lt, .binding [100]]).isSome = true ∧
    (BW.Spec.specEvaluator [.binding [97], .op .eq, .binding [98], .and, .binding [99], .op .eq, .binding [100]]).isSome = true := by decide

end BW.Props.C13

#print axioms BW.Props.C13.having_filter
#print axioms BW.Props.C13.not_truth
#print axioms BW.Props.C13.and_truth
#print axioms BW.Props.C13.or_truth
#print axioms BW.Props.C13.compare_int_numeric
#print axioms BW.Props.C13.other_kind_never_holds
#print axioms BW.Props.C13.int_vs_text_never_holds
#print axioms BW.Props.C13.evaluator_is_the_parse_tree
