/-
C15 — Text parsers return a well-formed value or an error for every input string.  (partial)

The parsers of the model (BW/Model/Text.lean) are total functions into `Option`: on every byte
string they return a value or nothing — that part of the property is the *shape* of the model and is
carried over to the code only by the correspondence (every text is parsed by the Go code under
`recover` and by the model; a panic, a nil value without an error, or a different verdict is reported).
PROVED on the model:
  * `reader_loads_prefix` — the graph reader loads exactly the triples of the non-blank lines before
    the first malformed one, reports that count, and reports an error iff some non-blank line is malformed;
  * `reader_count_is_loaded` — the reported number is the number of triples loaded;
  * `accepted_node_is_well_formed` — whatever the node parser accepts has a valid type and a valid,
    non-empty ID (no "empty value without error");
  * `short_texts_never_accepted` — texts shorter than two bytes are rejected (the inputs that used to
    panic: "", "_").
NOT provable on a model: absence of Go panics (index/slice out of range) — this is exactly what the
exhaustive short strings over the delimiter alphabet, the mutations and the random strings of the
`text` runs are for.
-/
import BW.Proofs.Text
import BW.Proofs.TextStable

namespace BW.Props.C15
open BW.Model BW.Model.Text BW.Proofs.Text

theorem reader_loads_prefix (L : Leaf) (ls : List Bytes) :
    (readLines L ls).1 = ((nonblank ls).takeWhile fun l => (parseTriple L l).isSome).filterMap (parseTriple L) ∧
    (readLines L ls).2.1 = ((nonblank ls).takeWhile fun l => (parseTriple L l).isSome).length ∧
    (readLines L ls).2.2 = (nonblank ls).any fun l => (parseTriple L l).isNone :=
  readLines_spec L ls

theorem reader_count_is_loaded (L : Leaf) (ls : List Bytes) : (readLines L ls).2.1 = (readLines L ls).1.length :=
  readLines_count L ls

/-- What the node parser accepts is well formed. -/
theorem accepted_node_is_well_formed (s : Bytes) (n : Node) (h : parseNode s = some n) :
    validID n.id = true ∧ (n.ty = [slash, underscore] ∨ validType n.ty = true) := by
  unfold parseNode at h
  simp only at h
  by_cases hlen : (trim s).length < 2
  · simp [hlen] at h
  · simp only [hlen, if_false] at h
    cases hr : trim s with
    | nil => simp [hr] at h
    | cons c rest =>
      rw [hr] at h
      simp only at h
      by_cases hc : (c == slash) = true
      · simp only [hc, if_true] at h
        cases hidx : indexOf [lt] (c :: rest) with
        | none => simp [hidx] at h
        | some idx =>
          simp only [hidx] at h
          by_cases hty : validType (List.take idx (c :: rest)) = true
          · simp only [hty, Bool.not_true, Bool.false_eq_true, if_false] at h
            by_cases hl : ((c :: rest).getLast? != some gt) = true
            · simp [hl] at h
            · simp only [hl, Bool.false_eq_true, if_false] at h
              by_cases hid : validID (List.take ((c :: rest).length - 1 - (idx + 1)) (List.drop (idx + 1) (c :: rest))) = true
              · simp only [hid, Bool.not_true, Bool.false_eq_true, if_false, Option.some.injEq] at h
                subst h
                exact ⟨hid, Or.inr hty⟩
              · simp at h; obtain ⟨h1, h2⟩ := h; subst h2; exact ⟨h1, Or.inr hty⟩
          · simp [hty] at h
      · simp only [hc, Bool.false_eq_true, if_false] at h
        by_cases hu : (c == underscore) = true
        · simp only [hu, if_true] at h
          by_cases hid : validID (List.drop 2 (c :: rest)) = true
          · simp only [hid, Bool.not_true, Bool.false_eq_true, if_false, Option.some.injEq] at h
            subst h
            exact ⟨hid, Or.inl rfl⟩
          · simp at h; obtain ⟨h1, h2⟩ := h; subst h2; exact ⟨h1, Or.inl rfl⟩
        · simp [hu] at h

theorem short_texts_never_accepted (s : Bytes) (h : (trim s).length < 2) : parseNode s = none := by
  unfold parseNode
  simp [h]

/-! ### Whatever they accept prints to text that they accept again as an equal value -/

/-- Nodes: for every input text the node parser accepts, the printed form of the value is accepted again as
    the same value. -/
theorem accepted_node_is_stable (s : Bytes) (n : Node) (h : parseNode s = some n) : parseNode (printNode n) = some n :=
  BW.Proofs.TextStable.node_stable s n h

/-- Predicates (immutable and temporal, any identifier). -/
theorem accepted_predicate_is_stable (L : Leaf) (hL : LeafLaws L) (s : Bytes) (p : Pred) (h : parsePred L s = some p) :
    parsePred L (printPred L p) = some p := BW.Proofs.TextStable.pred_stable L hL s p h

/-- Literals of every type: what `Parse` accepts (an int64 is then in range) prints to text it accepts again. -/
theorem accepted_literal_is_stable (L : Leaf) (hL : LeafLaws L) (s : Bytes) (l : Lit) (h : parseLit L s = some l) :
    parseLit L (printLit L l) = some l := BW.Proofs.TextStable.lit_stable L hL s l h

/-- Objects (`ParseObject`: node, else literal, else predicate). -/
theorem accepted_object_is_stable (L : Leaf) (hL : LeafLaws L) (s : Bytes) (o : Obj) (h : parseObject L s = some o) :
    parseObject L (printObj L o) = some o := BW.Proofs.TextStable.obj_stable L hL s o h

/-! Non-vacuity: the reader stops at the malformed second line and reports one triple. -/
def idLeaf : Leaf where
  quote := fun i => [dq] ++ i ++ [dq]
  unquote := fun s => some ((s.drop 1).dropLast)
  fmtTime := fun _ => []
  parseTime := fun _ => none
  fmtFloat := fun _ => []
  parseFloat := fun _ => none
def line1 : Bytes := [47, 117, 60, 97, 62, 9, 34, 112, 34, 64, 91, 93, 9, 47, 117, 60, 98, 62]   -- /u<a>	"p"@[]	/u<b>
example : (readLines idLeaf [line1, [103], line1]).2 = (1, true) := by decide

end BW.Props.C15

#print axioms BW.Props.C15.reader_loads_prefix
#print axioms BW.Props.C15.reader_count_is_loaded
#print axioms BW.Props.C15.accepted_node_is_well_formed
#print axioms BW.Props.C15.short_texts_never_accepted
#print axioms BW.Props.C15.accepted_node_is_stable
#print axioms BW.Props.C15.accepted_predicate_is_stable
#print axioms BW.Props.C15.accepted_literal_is_stable
#print axioms BW.Props.C15.accepted_object_is_stable
