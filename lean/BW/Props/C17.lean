/-
C17 — Every alternative of every BQL grammar rule is live and chosen by one token.

The grammar is a finite table regenerated from `/repo` on every run (`BW/Generated/Grammar.lean`,
written by `bwh gramdump`, which *runs* `grammar.BQL()` and `grammar.SemanticBQL()`); the quantifier
of the property is that table, so kernel evaluation over the whole table is a proof.
-/
import BW.Model.Grammar
import BW.Generated.Grammar

namespace BW.Props.C17
open BW.Model BW.Generated

/-- `allSyms` really lists every rule name (so "for all rules" = "for all s ∈ allSyms"). -/
theorem allSyms_complete : ∀ s : Sym, s ∈ allSyms := by
  intro s; cases s <;> decide

/-- Within each rule the non-empty alternatives begin with pairwise different tokens (never with a
    symbol), at most one alternative is empty and it is the last one tried. -/
theorem bql_alts_wf : ∀ s ∈ allSyms, altsWF (bql.rules s) = true := by decide +kernel

/-- Every rule that is referenced exists (has at least one alternative). -/
theorem bql_closed : closedB bql allSyms = true := by decide +kernel

/-- Every rule is reachable from the start rule. -/
theorem bql_reachable : reachCertOK bql allSyms reachOrder = true := by decide +kernel

/-- Every rule derives at least one finite statement. -/
theorem bql_productive : prodCertOK bql allSyms prodOrder = true := by decide +kernel

/-- No rule mentions the end-of-input token (needed for termination of the parser, C18). -/
theorem bql_no_eof : noEofB bql allSyms = true := by decide +kernel

/-- The grammar with semantic hooks has exactly the rules and alternatives of the plain grammar. -/
theorem semantic_same_shape : sameShapeB bql semanticBql allSyms = true := by decide +kernel

/-- Hence: for each alternative of each rule there is a concrete statement (token sequence) that
    the (model) parser accepts, consuming it completely, by taking that alternative. The witnesses
    are proposed by the translator and checked here; the harness replays each through the real
    parser and compares the alternatives fired. -/
theorem every_alt_fires : everyAltWitnessed bql allSyms 4096 witnesses = true := by decide +kernel

end BW.Props.C17

#print axioms BW.Props.C17.allSyms_complete
#print axioms BW.Props.C17.bql_alts_wf
#print axioms BW.Props.C17.bql_closed
#print axioms BW.Props.C17.bql_reachable
#print axioms BW.Props.C17.bql_productive
#print axioms BW.Props.C17.bql_no_eof
#print axioms BW.Props.C17.semantic_same_shape
#print axioms BW.Props.C17.every_alt_fires
