/-
C18 — The parser accepts exactly whole grammar statements and keeps no state between.

Model: the predictive parser machine of `BW.Model.Grammar` (parser.go + llk.go) over the grammar table
regenerated from the running code.  The theorems are proved for *every* grammar without the
end-of-input token in its rules and instantiated at BQL.
-/
import BW.Proofs.Parser
import BW.Generated.Grammar
import BW.Proofs.Hooks
import BW.Generated.HookFacts

namespace BW.Props.C18
open BW.Model BW.Generated BW.Proofs.Parser

theorem allSyms_complete : ∀ s : Sym, s ∈ allSyms := by
  intro s; cases s <;> decide

/-- Regenerated obligations about the BQL table used below. -/
theorem bql_no_eof_b : noEofB bql allSyms = true := by decide +kernel
theorem bql_alts_wf : ∀ s ∈ allSyms, altsWF (bql.rules s) = true := by decide +kernel

theorem bql_no_eof : NoEofG bql := by
  intro x alt halt e he
  have h := bql_no_eof_b
  simp only [noEofB, List.all_eq_true] at h
  have := h x (allSyms_complete x) alt halt e he
  cases e with
  | t k =>
    simp only [bne_iff_ne, ne_eq] at this
    intro heq; injection heq with heq; exact this heq
  | s y => intro heq; cases heq

/-- Soundness: the parser accepts only if the consumed tokens are a statement derivable from the
    grammar (in the greedy sense, hence in the plain sense). -/
theorem parse_sound (f : Nat) (ts rest : List Tok) (evs : List (Ev Tok Sym Tok))
    (h : parseKinds bql f ts = .accept rest evs) :
    GDerives bql [El.s .START] ts rest ∧ ∃ pre, ts = pre ++ rest ∧ Derives bql [El.s .START] pre := by
  have hs : NoEofEls bql (els [Item.el (El.s Sym.START) none]) := by
    intro e he
    simp only [els, List.mem_cons, List.mem_nil_iff, or_false] at he
    subst he
    intro h; cases h
  have := run_sound bql bql_no_eof f [Item.el (El.s Sym.START) none] ts [] rest evs hs h
  exact ⟨this, gderives_derives _ _ _ this⟩

/-- Completeness: it accepts every derivable statement in which each optional part is present
    whenever that part's first token is the next token (greedy derivations). -/
theorem parse_complete (ts rest : List Tok) (h : GDerives bql [El.s .START] ts rest) :
    ∃ n, ∀ f, n ≤ f → ∃ evs, parseKinds bql f ts = .accept rest evs :=
  run_complete bql ts rest h

/-- With the end-of-input check (`Parser.Parse` after the D09 repair) a token sequence is accepted
    exactly when the *whole* of it is a greedily derivable statement. -/
theorem parse_whole_input (ts : List Tok) :
    (∃ n, ∀ f, n ≤ f → acceptsStatement bql true f ts = true) ↔ GDerives bql [El.s .START] ts [] := by
  constructor
  · rintro ⟨n, h⟩
    have := h n (Nat.le_refl n)
    unfold acceptsStatement at this
    split at this
    · rename_i rest evs heq
      simp only [Bool.not_true, Bool.false_or, List.isEmpty_iff] at this
      subst this
      exact (parse_sound n ts [] evs heq).1
    · cases this
  · intro h
    obtain ⟨n, hn⟩ := parse_complete ts [] h
    refine ⟨n, fun f hf => ?_⟩
    obtain ⟨evs, he⟩ := hn f hf
    simp [acceptsStatement, he]

/-- Without that check trailing input is silently accepted (the behaviour before the repair):
    `create graph ?x ; select`. -/
theorem no_eof_check_witness :
    acceptsStatement bql false 64 [.CREATE, .GRAPH, .BINDING, .SEMICOLON, .QUERY] = true ∧
    acceptsStatement bql true 64 [.CREATE, .GRAPH, .BINDING, .SEMICOLON, .QUERY] = false := by decide +kernel

/-- The result does not depend on the fuel once it suffices. -/
theorem fuel_independent (f n : Nat) (ts : List Tok) (h : parseKinds bql f ts ≠ .nofuel) :
    parseKinds bql (f + n) ts = parseKinds bql f ts :=
  run_mono' bql f n _ ts [] h

/-- The semantic layer may reject more statements but never accepts more. -/
theorem semantic_rejects_more (hooksOk : List (Ev Tok Sym Tok) → Bool) (chk : Bool) (f : Nat) (ts : List Tok)
    (h : acceptsSemantic bql hooksOk chk f ts = true) : acceptsStatement bql chk f ts = true := by
  unfold acceptsSemantic at h
  unfold acceptsStatement
  split at h
  · rename_i rest evs heq
    simp only [Bool.and_eq_true] at h
    exact h.1
  · cases h

/-- One token chooses the alternative: if a rule has an alternative starting with the next token,
    that alternative is the one taken. -/
theorem one_token_chooses (x : Sym) (k : Tok) (r : List (El Tok Sym)) (h : (El.t k :: r) ∈ bql.rules x) :
    ∃ j, selectAlt k (bql.rules x) 0 = some (j, El.t k :: r) :=
  selectAlt_of_mem k _ 0 r (bql_alts_wf x (allSyms_complete x)) h

/-- The parser machine itself carries no state from one `parseKinds` call to the next: it is a
    function of (grammar, tokens).  What the Go implementation adds are the hook closures; their
    state is tied by the `parse/state` correspondence (sequences of statements through one parser
    instance against fresh instances). -/
theorem machine_stateless (f : Nat) (ts : List Tok) (history : List (List Tok)) :
    (history.map (parseKinds bql f), parseKinds bql f ts).2 = parseKinds bql f ts := rfl

/-! ### The hook closures keep no state between statements -/

/-- The three WHERE-clause hooks are closures with a `lastNopToken` each. Whatever they remember from
    statements parsed earlier with the same parser — accepted or rejected, broken off after a modifier
    keyword or not — what is extracted from a new statement — pattern clauses, projections, input graphs, GROUP BY, ORDER BY,
    LIMIT, global time bounds, statement type, graph names, data triples, construct template — is the same (the model resets a
    closure when it sees another statement: 7ebb438). -/
theorem hooks_keep_no_state (stmt : Nat) (hs hp ho hv hs' hp' ho' hv' : BW.Model.Hooks.HState)
    (hb hb' : BW.Model.Hooks.BState) (da da' : BW.Model.Hooks.DAcc)
    (h1 : hs.cur ≠ stmt) (h2 : hp.cur ≠ stmt) (h3 : ho.cur ≠ stmt) (h4 : hv.cur ≠ stmt) (h5 : hb.cur ≠ stmt) (h6 : da.cur ≠ stmt)
    (h1' : hs'.cur ≠ stmt) (h2' : hp'.cur ≠ stmt) (h3' : ho'.cur ≠ stmt) (h4' : hv'.cur ≠ stmt) (h5' : hb'.cur ≠ stmt) (h6' : da'.cur ≠ stmt)
    (evs : List BW.Model.Hooks.HEv) :
    (BW.Model.Hooks.wrun { stmt := stmt, hs := hs, hp := hp, ho := ho, hv := hv, hb := hb, da := da } evs).map (fun w => (w.pattern, w.head)) =
    (BW.Model.Hooks.wrun { stmt := stmt, hs := hs', hp := hp', ho := ho', hv := hv', hb := hb', da := da' } evs).map (fun w => (w.pattern, w.head)) :=
  BW.Proofs.Hooks.hooks_stateless stmt hs hp ho hv hs' hp' ho' hv' hb hb' da da' h1 h2 h3 h4 h5 h6 h1' h2' h3' h4' h5' h6' evs

/-! ### Which hook sees which tokens (regenerated by probing the hooks of `grammar.SemanticBQL()`) -/

def succs (s : Sym) : List Sym :=
  (bql.rules s).flatMap fun alt => alt.filterMap fun e => match e with | .s x => some x | .t _ => none

def reachN : Nat → List Sym → List Sym
  | 0, l => l
  | n + 1, l => reachN n (l ++ (l.flatMap succs).filter (fun x => !l.contains x))

/-- Every alternative of `s` hands its tokens to hook `p`. -/
def altsAll (s : Sym) (p : BW.Model.Hooks.Part) : Bool := (List.range (bql.rules s).length).all fun i => partOf s i == p

/-- The tokens of a clause's subject part go to the subject hook, those of its predicate part to the
    predicate hook, those of its object part to the object hook; those of the SELECT list to the projection
    hook, of the FROM list to the input-graph hook, of GROUP BY, ORDER BY, LIMIT and the global time bound to
    theirs; the tokens of INSERT / DELETE statements to the data accumulator (the only symbol whose
    alternatives differ is START: alternatives 1 and 2), graph lists of CREATE / DROP and of INTO / IN to the two
    graph accumulators, template subjects, predicates and objects to the construct hooks; and to no other.
    Clauses are opened and closed by the next-clause hook, the pattern by the init hook; the end of WHERE
    flushes the working projection; the ORDER BY list is closed by its checker; the statement type is bound
    where the statement's body ends; template clauses and pairs are opened and closed by their hooks; every
    alternative of a symbol carries the same clause hooks. -/
theorem routing_wf :
    hooksUniform = true ∧ splitSyms = [.START] ∧
    (List.range (bql.rules .START).length).map (partOf .START) = [.none, .data, .data, .none, .none, .none, .none, .none] ∧
    (reachN 6 [.SUBJECT_EXTRACT]).all (altsAll · .subj) = true ∧
    (reachN 6 [.PREDICATE]).all (altsAll · .pred) = true ∧
    (reachN 6 [.OBJECT]).all (altsAll · .obj) = true ∧
    (reachN 6 [.ORDER_BY]).all (altsAll · .order) = true ∧
    (reachN 6 [.VARS]).all (altsAll · .vars) = true ∧
    (reachN 6 [.INPUT_GRAPHS]).all (altsAll · .inGraphs) = true ∧
    (reachN 6 [.GROUP_BY]).all (altsAll · .group) = true ∧
    (reachN 6 [.LIMIT]).all (altsAll · .limit) = true ∧
    (reachN 6 [.GLOBAL_TIME_BOUND]).all (altsAll · .bounds) = true ∧
    [Sym.FIRST_CLAUSE, .CLAUSES, .OPTIONAL_CLAUSE].all (altsAll · .subj) = true ∧
    (reachN 6 [.INSERT_OBJECT, .INSERT_DATA, .DELETE_OBJECT, .DELETE_DATA]).all (altsAll · .data) = true ∧
    (reachN 6 [.GRAPHS]).all (altsAll · .graphs) = true ∧
    (reachN 6 [.OUTPUT_GRAPHS]).all (altsAll · .outGraphs) = true ∧
    [Sym.CONSTRUCT_TRIPLES, .DECONSTRUCT_TRIPLES].all (altsAll · .cSubj) = true ∧
    altsAll .CONSTRUCT_PREDICATE .cPred = true ∧ altsAll .CONSTRUCT_OBJECT .cObj = true ∧
    allSyms.all (fun s => altsAll s .none || s == .START || (reachN 6 [.SUBJECT_EXTRACT, .PREDICATE, .OBJECT, .FIRST_CLAUSE, .CLAUSES,
      .OPTIONAL_CLAUSE, .ORDER_BY, .VARS, .INPUT_GRAPHS, .GROUP_BY, .LIMIT, .GLOBAL_TIME_BOUND, .INSERT_OBJECT, .INSERT_DATA,
      .DELETE_OBJECT, .DELETE_DATA, .GRAPHS, .OUTPUT_GRAPHS, .CONSTRUCT_TRIPLES, .DECONSTRUCT_TRIPLES, .CONSTRUCT_PREDICATE,
      .CONSTRUCT_OBJECT]).contains s) = true ∧
    [Sym.FIRST_CLAUSE, .CLAUSES, .MORE_CLAUSES].all (fun s => startHook s == .next && endHook s == .next) = true ∧
    startHook .WHERE = .init ∧ endHook .WHERE = .flushVars ∧ endHook .ORDER_BY = .orderCheck ∧
    [Sym.CONSTRUCT_TRIPLES, .MORE_CONSTRUCT_TRIPLES, .DECONSTRUCT_TRIPLES, .MORE_DECONSTRUCT_TRIPLES].all
      (fun s => startHook s == .cNext && endHook s == .cNext) = true ∧
    startHook .CONSTRUCT_FACTS = .cInit ∧ startHook .DECONSTRUCT_FACTS = .cInit ∧
    startHook .CONSTRUCT_PREDICATE = .cPair ∧ endHook .CONSTRUCT_PREDICATE = .none ∧
    startHook .CONSTRUCT_OBJECT = .none ∧ endHook .CONSTRUCT_OBJECT = .cPair ∧
    endHook .INSERT_OBJECT = .bindType .insert ∧ endHook .DELETE_OBJECT = .bindType .delete ∧
    endHook .CREATE_GRAPHS = .bindType .create ∧ endHook .DROP_GRAPHS = .bindType .drop ∧
    endHook .CONSTRUCT_FACTS = .bindType .construct ∧ endHook .DECONSTRUCT_FACTS = .bindType .deconstruct ∧
    endHook .GRAPH_SHOW = .bindType .show ∧
    allSyms.all (fun s => (startHook s == .none && endHook s == .none) || [Sym.FIRST_CLAUSE, .CLAUSES, .MORE_CLAUSES, .WHERE, .ORDER_BY,
      .CONSTRUCT_TRIPLES, .MORE_CONSTRUCT_TRIPLES, .DECONSTRUCT_TRIPLES, .MORE_DECONSTRUCT_TRIPLES, .CONSTRUCT_FACTS,
      .DECONSTRUCT_FACTS, .CONSTRUCT_PREDICATE, .CONSTRUCT_OBJECT, .INSERT_OBJECT, .DELETE_OBJECT, .CREATE_GRAPHS, .DROP_GRAPHS,
      .GRAPH_SHOW].contains s) = true := by
  decide +kernel

/-! Non-vacuity: a real statement is greedily derivable and accepted. -/
example : acceptsStatement bql true 64 [.CREATE, .GRAPH, .BINDING, .SEMICOLON] = true := by decide +kernel

end BW.Props.C18

#print axioms BW.Props.C18.bql_no_eof
#print axioms BW.Props.C18.bql_alts_wf
#print axioms BW.Props.C18.parse_sound
#print axioms BW.Props.C18.parse_complete
#print axioms BW.Props.C18.parse_whole_input
#print axioms BW.Props.C18.no_eof_check_witness
#print axioms BW.Props.C18.fuel_independent
#print axioms BW.Props.C18.semantic_rejects_more
#print axioms BW.Props.C18.one_token_chooses
#print axioms BW.Props.C18.machine_stateless
#print axioms BW.Props.C18.hooks_keep_no_state
#print axioms BW.Props.C18.routing_wf
