/-
C12 — ORDER BY returns a correctly sorted permutation; LIMIT its first n rows.
-/
import BW.Proofs.Query
import BW.Proofs.QueryPost
import BW.Proofs.Determinism
import BW.Proofs.HooksOrder
import BW.Proofs.HooksHead
import BW.Generated.ParFacts

namespace BW.Props.C12
open BW.Model BW.Proofs.Query BW.Proofs.QueryPost

/-- ORDER BY returns a permutation of the rows the same query returns without it. -/
theorem order_by_perm (S : Strs) (cfg : List (Bytes × Bool)) (rows : List Row) : (sortRows S cfg rows).Perm rows :=
  sortRows_perm S cfg rows

/-- int64 and float64 keys order numerically, time anchors chronologically, text as text; values of
    different kinds are not ordered. -/
theorem key_order_int (S : Strs) (a b : Int) : compareCells S (.lit (.int a)) (.lit (.int b)) = some (compare a b) := rfl
theorem key_order_time (S : Strs) (a b : Time) : compareCells S (.time a) (.time b) = some (compare a.nanos b.nanos) := rfl
theorem key_order_text (S : Strs) (a b : Bytes) : compareCells S (.lit (.text a)) (.lit (.text b)) = some (bytesCmp a b) := rfl
theorem key_order_float (S : Strs) (a b : Nat) :
    compareCells S (.lit (.float a)) (.lit (.float b)) = some (compare (floatKey a) (floatKey b)) := rfl

/-- A column of int64 values sorted by the model's comparator is sorted numerically
    (the comparator coincides with the integer order, and mergeSort by that order is pairwise sorted). -/
theorem int_key_comparator (S : Strs) (k : Bytes) (a b : Row) (x y : Int)
    (ha : a.get k = some (.lit (.int x))) (hb : b.get k = some (.lit (.int y))) :
    rowLe S [(k, false)] a b = decide (intKey k a ≤ intKey k b) := rowLe_int_key S k a b x y ha hb

theorem int_key_sorted (k : Bytes) (rows : List Row) :
    List.Pairwise (fun a b => intKey k a ≤ intKey k b) (rows.mergeSort fun a b => decide (intKey k a ≤ intKey k b)) :=
  sorted_by_projection k rows

/-- LIMIT n returns the first min(n, N) rows. -/
theorem limit_prefix (n : Int) (rows : List Row) (hn : 0 ≤ n) : limitRows n rows = rows.take (min n.toNat rows.length) :=
  limitRows_prefix n rows hn

/-- Neither clause changes which rows qualify: the limited, ordered result is a sub-multiset of the
    unordered, unlimited one. -/
theorem clauses_do_not_change_qualification (S : Strs) (cfg : List (Bytes × Bool)) (n : Int) (rows : List Row) (hn : 0 ≤ n) :
    (limitRows n (sortRows S cfg rows)).Sublist (sortRows S cfg rows) ∧ (sortRows S cfg rows).Perm rows := by
  refine ⟨?_, sortRows_perm S cfg rows⟩
  rw [limitRows_prefix n _ hn]
  exact List.take_sublist _ _

/-- The limit is pushed down to the driver only for a lone clause of three different plain bindings
    without ORDER BY, GROUP BY or HAVING — where it cannot change which rows qualify. -/
theorem pushdown_only_when_harmless (st : Stmt) (h : st.pushedLimit ≠ 0) :
    ∃ c, st.clauses = [c] ∧ c.keepsEveryTriple = true ∧ st.orderBy = [] ∧ st.groupBy = [] ∧ st.hasHaving = false := by
  unfold Stmt.pushedLimit at h
  split at h
  · rename_i c hc
    split at h
    · rename_i hcond
      simp only [Bool.and_eq_true, List.isEmpty_iff, Bool.not_eq_true'] at hcond
      exact ⟨c, hc, hcond.2, hcond.1.2, hcond.1.1.1, hcond.1.1.2⟩
    · exact absurd rfl h
  · exact absurd rfl h

/-- ORDER BY sorts: when the keys compare the rows at hand as a total preorder, every earlier row of the
    result is ≤ every later one under the composite key comparison (ties are not constrained). -/
theorem order_by_sorted (S : Strs) (cfg : List (Bytes × Bool)) (rows : List Row) (hcfg : cfg ≠ [])
    (trans : ∀ a ∈ rows, ∀ b ∈ rows, ∀ c ∈ rows, rowLe S cfg a b = true → rowLe S cfg b c = true → rowLe S cfg a c = true)
    (total : ∀ a ∈ rows, ∀ b ∈ rows, (rowLe S cfg a b || rowLe S cfg b a) = true) :
    (sortRows S cfg rows).Pairwise fun a b => rowLe S cfg a b = true :=
  BW.Proofs.Determinism.sortRows_sorted S cfg rows hcfg trans total

/-- A key written twice in the ORDER BY list (same direction — two directions are rejected) is kept once by
    the semantic checker (`orderByBindingsChecker`, modelled in `BW.Model.Hooks.orderCheck` and run against the
    real hooks on every generated statement): the rewritten list compares any two rows exactly as the list
    that was written, so the sort is the same. -/
theorem repeated_keys_change_nothing (S : Strs) (cfg cfg' : List (Bytes × Bool))
    (h : BW.Model.Hooks.orderCheck cfg = some cfg') (hne : cfg ≠ []) (rows : List Row) :
    (∀ a b, compareRows S cfg a b = compareRows S cfg' a b) ∧ sortRows S cfg rows = sortRows S cfg' rows :=
  ⟨BW.Proofs.HooksOrder.dedup_compares_same S cfg cfg' h, BW.Proofs.HooksOrder.dedup_sorts_same S cfg cfg' h rows hne⟩

/-- Non-vacuity: `?a desc, ?b, ?a desc` is rewritten to `?a desc, ?b`; `?a desc, ?a asc` is rejected. -/
example : BW.Model.Hooks.orderCheck [([63, 97], true), ([63, 98], false), ([63, 97], true)] = some [([63, 97], true), ([63, 98], false)] ∧
    BW.Model.Hooks.orderCheck [([63, 97], true), ([63, 97], false)] = none := by decide

/-- LIMIT means what it says: the semantic hook (`limitCollection`) turns `LIMIT "n"^^type:int64` with
    `n ≥ 0` into the limit `n`, changing nothing else, and rejects a negative `n`. -/
theorem limit_means_its_token (h : BW.Model.Hooks.Head) (n : Int) :
    BW.Proofs.HooksHead.optRun BW.Model.Hooks.limitStep h [BW.Proofs.HooksHead.tk .limit_, BW.Proofs.HooksHead.intTk n] =
      if n < 0 then none else some { h with limit := some n } :=
  BW.Proofs.HooksHead.limit_denote h n

/-! ### LIMIT comes last -/

/-- Regenerated obligation (`parfacts`, go/ast): `queryPlan.Execute` runs its stages in the order the model's
    `postStages` composes them — graph pattern, projection / grouping, ORDER BY, HAVING, LIMIT. -/
theorem stages_as_modelled :
    BW.Generated.executeStages = ["processGraphPattern", "projectAndGroupBy", "orderBy", "having", "limit"] := by decide

/-- LIMIT n returns the first min(n, N) of the rows HAVING keeps of the sorted table — not of the sorted table: with
    the stages in that order LIMIT cannot change which rows qualify. -/
theorem limit_cuts_what_having_keeps (S : Strs) (cfg : List (Bytes × Bool)) (e : HExpr) (n : Int) (hn : 0 ≤ n) (rows out : List Row)
    (f : Row → Bool) (hf : ∀ r ∈ sortRows S cfg rows, evalH S r e = .ok (f r))
    (h : postStages S cfg (some e) (some n) rows = .ok out) :
    out = ((sortRows S cfg rows).filter f).take (min n.toNat ((sortRows S cfg rows).filter f).length) := by
  unfold postStages at h
  simp only [havingFilter_spec S e _ f hf, Except.map, Except.ok.injEq] at h
  rw [← h, limitRows_prefix n _ hn]

/-- Non-vacuity, and why the order matters: of the rows 1, 5, 2, 6 the two first that exceed 3 are 5 and 6; cutting
    first would leave 5 alone. -/
example :
    let row := fun (i : Int) => ([([63, 111], Cell.lit (.int i))] : Row)
    let S : Strs := ⟨fun _ => [], fun _ => [], fun _ => []⟩
    postStages S [] (some (.cmpLit .gt [63, 111] (some (.int 3)))) (some 2) [row 1, row 5, row 2, row 6] = .ok [row 5, row 6] ∧
    havingFilter S (.cmpLit .gt [63, 111] (some (.int 3))) (limitRows 2 [row 1, row 5, row 2, row 6]) = .ok [row 5] := by
  refine ⟨by rfl, by rfl⟩

end BW.Props.C12

#print axioms BW.Props.C12.order_by_perm
#print axioms BW.Props.C12.key_order_int
#print axioms BW.Props.C12.key_order_time
#print axioms BW.Props.C12.key_order_text
#print axioms BW.Props.C12.key_order_float
#print axioms BW.Props.C12.int_key_comparator
#print axioms BW.Props.C12.int_key_sorted
#print axioms BW.Props.C12.limit_prefix
#print axioms BW.Props.C12.clauses_do_not_change_qualification
#print axioms BW.Props.C12.pushdown_only_when_harmless
#print axioms BW.Props.C12.order_by_sorted
#print axioms BW.Props.C12.repeated_keys_change_nothing
#print axioms BW.Props.C12.limit_means_its_token
#print axioms BW.Props.C12.stages_as_modelled
#print axioms BW.Props.C12.limit_cuts_what_having_keeps
