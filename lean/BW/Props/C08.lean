/-
C08 — Any statement text yields a table or an error: no crash, hang or leak.

What a theorem can carry here, and what it cannot.  PROVED:
  * lexing ends, for every text, with exactly one final token (end of input or an error) — `lex_total`
    (re-export of C16's theorem on the lexer model tied to lexer.go's tables);
  * parsing ends, for every token sequence, within `n·(M+1)+2` machine steps, `M` the longest
    alternative of the grammar table regenerated from `grammar.BQL()` — `parse_terminates`,
    `parser_decides` (the parser model never runs out of that fuel: it accepts or rejects);
  * no goroutine started for a call outlives it, at the four channel hand-overs of the engine (lexer →
    parser; driver → relay; relay → row builder; CONSTRUCT loop → bulk writer): for every number of
    items, channel capacity, point at which the consumer loses interest and point at which the
    producer gives up, every execution of the life-cycle model ends with both goroutines ended —
    `*_no_goroutine_left`, instantiated with the policies read off the source by the `concfacts`
    translator (`site_facts`); and the converse (`leak_if_parser_walks_away`,
    `leak_if_writer_not_closed`): without the drain / the close a goroutine IS left behind.
NOT provable about a model: that the Go code does not panic (nil dereference, slice bounds,
makeslice), that driver calls return, that the runtime schedules fairly.  Those are covered by the
correspondence only: every generated text (all token sequences up to a length, grammar-generated and
semantically valid statements, byte- and token-level mutations, random bytes) is executed by the real
engine against an empty and a populated store under a watchdog, with the goroutine count compared
before and after, and the accept/reject decision compared with the lexer+parser model.  — partial.
-/
import BW.Proofs.Termination
import BW.Proofs.Conc
import BW.Proofs.Lexer
import BW.Generated.Grammar
import BW.Generated.ConcFacts
import BW.Model.BqlLex

namespace BW.Props.C08
open BW.Model BW.Generated BW.Proofs.Parser BW.Proofs.Termination BW.Model.Conc BW.Proofs.Conc

theorem allSyms_complete : ∀ s : Sym, s ∈ allSyms := by
  intro s; cases s <;> decide

theorem bql_no_eof_b : noEofB bql allSyms = true := by decide +kernel

theorem bql_no_eof : NoEofG bql := by
  intro x alt halt e he
  have h := bql_no_eof_b
  simp only [noEofB, List.all_eq_true] at h
  have := h x (allSyms_complete x) alt halt e he
  cases e with
  | t k =>
    simp only [bne_iff_ne, ne_eq] at this
    intro heq; injection heq with heq; exact this heq
  | s y => intro heq; cases heq

/-- The longest alternative of the regenerated grammar table. -/
def M : Nat := 12

theorem alts_bounded_b : (allSyms.all fun s => (bql.rules s).all fun a => decide (a.length ≤ M)) = true := by decide +kernel

theorem alts_bounded : ∀ x, ∀ alt ∈ bql.rules x, alt.length ≤ M := by
  intro x alt h
  have := alts_bounded_b
  simp only [List.all_eq_true, decide_eq_true_eq] at this
  exact this x (allSyms_complete x) alt h

/-- Parsing terminates: on `n` tokens the parser machine needs at most `n·(M+1)+2` steps. -/
theorem parse_terminates (ts : List Tok) (f : Nat) (hf : ts.length * (M + 1) + 2 ≤ f) : parseKinds bql f ts ≠ .nofuel :=
  BW.Proofs.Termination.parse_terminates bql bql_no_eof M alts_bounded ts f hf

/-- … so the parser model decides every token sequence: it accepts or it rejects. -/
theorem parser_decides (ts : List Tok) :
    (∃ rest evs, parseKinds bql (ts.length * (M + 1) + 2) ts = .accept rest evs) ∨
    (∃ evs, parseKinds bql (ts.length * (M + 1) + 2) ts = .reject evs) := by
  have h := parse_terminates ts _ (Nat.le_refl _)
  cases hp : parseKinds bql (ts.length * (M + 1) + 2) ts with
  | accept rest evs => exact Or.inl ⟨rest, evs, rfl⟩
  | reject evs => exact Or.inr ⟨evs, rfl⟩
  | nofuel => exact absurd hp h

/-- Regenerated obligation: no keyword or single-symbol entry names the EOF / ERROR kinds. -/
theorem tables_wf : BW.Proofs.Lexer.TablesWF bqlLex := by
  unfold BW.Proofs.Lexer.TablesWF
  decide

/-- Lexing ends, for every text, with exactly one final token (end of input or an error). -/
theorem lex_total (input : List Rune) : BW.Proofs.Lexer.OneTerminal bqlLex (lex bqlLex input) :=
  BW.Proofs.Lexer.lexLoop_oneTerminal bqlLex tables_wf _ _ _ _ (Nat.lt_succ_self _)

/-! ### Goroutines: the policies of the four hand-overs, read off the source -/

/-- What the translator found (regenerated on every run). -/
theorem site_facts :
    concFacts.parserDrains = true ∧ concFacts.lexerCloses = true ∧ concFacts.addTriplesDrains = true ∧
    concFacts.relayCloses = true ∧ concFacts.constructFinishes = true ∧ concFacts.memoryCloses = true ∧
    concFacts.updateWaits = true := by decide

/-- lexer goroutine → LLk / Parser.Parse -/
def lexerParser : Policy := ⟨concFacts.parserDrains, concFacts.lexerCloses⟩
/-- storage driver lookup → the relay loop of simpleFetch (a `for range` over the driver's channel) -/
def driverRelay : Policy := ⟨true, concFacts.memoryCloses⟩
/-- relay loop → addTriples -/
def relayRows : Policy := ⟨concFacts.addTriplesDrains, concFacts.relayCloses⟩
/-- constructPlan.Execute → its bulk writer (which ranges over the channel until it is closed) -/
def constructWriter : Policy := ⟨true, concFacts.constructFinishes⟩

/-- However many tokens the text has, whatever the channel capacity and wherever the parser stops
    reading: once nothing can move, the lexer goroutine and the parser have both ended. -/
theorem lexer_parser_no_goroutine_left (n cap want : Nat) (s : PC) (h : Reach lexerParser (init n cap want) s) :
    leaked lexerParser s = false ∧ (stuck lexerParser s = true → s.final = true) ∧ work s ≤ work (init n cap want) :=
  ⟨no_leak _ (by decide) (by decide) n cap want s h, ends_final _ (by decide) (by decide) n cap want s h, reach_work _ _ _ h⟩

theorem driver_relay_no_goroutine_left (n cap want : Nat) (s : PC) (h : Reach driverRelay (init n cap want) s) :
    leaked driverRelay s = false ∧ (stuck driverRelay s = true → s.final = true) :=
  ⟨no_leak _ (by decide) (by decide) n cap want s h, ends_final _ (by decide) (by decide) n cap want s h⟩

theorem relay_rows_no_goroutine_left (n cap want : Nat) (s : PC) (h : Reach relayRows (init n cap want) s) :
    leaked relayRows s = false ∧ (stuck relayRows s = true → s.final = true) :=
  ⟨no_leak _ (by decide) (by decide) n cap want s h, ends_final _ (by decide) (by decide) n cap want s h⟩

theorem construct_writer_no_goroutine_left (n cap want : Nat) (s : PC) (h : Reach constructWriter (init n cap want) s) :
    leaked constructWriter s = false ∧ (stuck constructWriter s = true → s.final = true) :=
  ⟨no_leak _ (by decide) (by decide) n cap want s h, ends_final _ (by decide) (by decide) n cap want s h⟩

/-- No execution of a hand-over is infinite: every step uses up work. -/
theorem every_step_uses_work (p : Policy) (s t : PC) (h : t ∈ steps p s) : work t < work s := step_decreases p s t h

/-- The drain matters: a parser that walks away leaves the lexer goroutine blocked (D11, repaired). -/
theorem leak_if_parser_walks_away (n : Nat) (hn : 0 < n) :
    ∃ s, Reach ⟨false, true⟩ (init n 0 0) s ∧ leaked ⟨false, true⟩ s = true := leak_without_drain n hn

/-- The close matters: a CONSTRUCT loop that returns without closing leaves its writer blocked (D28,
    repaired). -/
theorem leak_if_writer_not_closed (n cap want : Nat) (hn : 0 < n) :
    ∃ s, Reach ⟨true, false⟩ (init n cap want) s ∧ leaked ⟨true, false⟩ s = true := leak_without_close n cap want hn

/-! Non-vacuity: a run of the model to its end. -/
example : (steps lexerParser (init 2 0 1)).length = 2 := by decide
example : (init 0 0 0).final = false ∧ stuck lexerParser (init 0 0 0) = false := by decide

end BW.Props.C08

#print axioms BW.Props.C08.parse_terminates
#print axioms BW.Props.C08.parser_decides
#print axioms BW.Props.C08.lex_total
#print axioms BW.Props.C08.site_facts
#print axioms BW.Props.C08.lexer_parser_no_goroutine_left
#print axioms BW.Props.C08.driver_relay_no_goroutine_left
#print axioms BW.Props.C08.relay_rows_no_goroutine_left
#print axioms BW.Props.C08.construct_writer_no_goroutine_left
#print axioms BW.Props.C08.every_step_uses_work
#print axioms BW.Props.C08.leak_if_parser_walks_away
#print axioms BW.Props.C08.leak_if_writer_not_closed
