/-
C05 — Printed nodes, predicates, literals, triples, graphs parse back to equal values.

Model: BW/Model/Text.lean — the structure of the text forms (which characters separate the parts,
where the parsers cut); the leaf codecs of the Go standard library (`%q` / strconv.Unquote,
RFC3339Nano, `%v` of a float64 / ParseFloat) are parameters with the laws `LeafLaws` / `LeafLaws2`
(un-quoting undoes quoting; parsing a formatted time / float gives it back; formatted times, floats and
quoted white-space-free IDs contain no quote resp. no white space).
PROVED, for every value of the documented domain and every leaf codec satisfying the laws:
  * `node_round_trip`      — parse (print n) = n (type a '/'-path without '<', ID without '<' '>');
  * `predicate_round_trip` — for every ID whatsoever (quotes, brackets, backslashes, the separator
    itself: the parser cuts at the LAST `"@[`) and every anchor;
  * `literal_round_trip`   — bool, int64 (the full range, digit by digit), float64 (through the leaf
    law), text (any bytes, the separator `"^^type:` included: cut at the LAST occurrence), blob (any
    bytes, through the decimal byte list);
  * `object_round_trip`    — nodes, literals and predicate-valued objects through `ParseObject`'s
    node → literal → predicate cascade (a printed predicate is never mistaken for a literal);
  * `triple_round_trip`    — subject, predicate, object separated by tabs and found again by the
    `>\s+"` and `]\s+[/"]` splits, for IDs without white space (the documented domain);
  * `graph_round_trip`     — `ReadIntoGraph (WriteGraph ts)` loads exactly `ts`, in order, reports
    `|ts|` and no error — PROVIDED no printed triple contains a line feed (`LineOK.noLF`): this
    hypothesis is exactly the known finding D06 (a text literal with a line feed), whose witness is
    re-run on every check.
ASSUMED: the leaf laws (Go's standard library is trusted; every use is cross-checked through the oracle
tables of the correspondence runs).
-/
import BW.Proofs.Text

namespace BW.Props.C05
open BW.Model BW.Model.Text BW.Proofs.Text

theorem node_round_trip (n : Node) (h : NodeOK n) : parseNode (printNode n) = some n :=
  parseNode_printNode n h

/-- A predicate prints to text that parses back to it — when its anchor is one the format can write (`PredOK`: for Go's
    RFC 3339, the years 0..9999 in the anchor's own zone: `9999-12-31T23:59:59.999999999Z` seen from `+01:00` prints
    as `10000-01-01T00:59:59.999999999+01:00`, which `time.Parse` refuses; the law without that condition was false of
    Go and the real code failed at the excluded point — a limit of the text format, recorded in DESIGN.md). -/
theorem predicate_round_trip (L : Leaf) (hL : LeafLaws L) (p : Pred) (hp : PredOK L p) : parsePred L (printPred L p) = some p :=
  parsePred_printPred L hL p hp

theorem literal_round_trip_bool (L : Leaf) (b : Bool) : parseLit L (printLit L (.bool b)) = some (.bool b) :=
  parseLit_printLit_bool L b

theorem literal_round_trip_int (L : Leaf) (i : Int) (h : IsI64 i) : parseLit L (printLit L (.int i)) = some (.int i) :=
  parseLit_printLit_int L i h

/-- float64: for the bit patterns a literal holds (`floatOK`: every number and one NaN — every NaN prints as `NaN`, and
    since c010ae5 `Build` keeps one of them; before, a literal built from another NaN came back with other bits). -/
theorem literal_round_trip_float (L : Leaf) (hL : LeafLaws L) (bits : Nat) (hb : L.floatOK bits = true) :
    parseLit L (printLit L (.float bits)) = some (.float bits) :=
  parseLit_printLit_float L hL bits hb

theorem literal_round_trip_text (L : Leaf) (t : Bytes) : parseLit L (printLit L (.text t)) = some (.text t) :=
  parseLit_printLit_text L t

theorem literal_round_trip_blob (L : Leaf) (bs : Bytes) : parseLit L (printLit L (.blob bs)) = some (.blob bs) :=
  parseLit_printLit_blob L bs

/-- Every literal whose int64 is an int64. -/
theorem literal_round_trip (L : Leaf) (hL : LeafLaws L) (l : Lit) (h : LitOK L l) : parseLit L (printLit L l) = some l :=
  parseLit_printLit L hL l h

theorem int64_text_round_trip (i : Int) (h : IsI64 i) : parseInt64 (fmtInt i) = some i :=
  parseInt64_fmtInt i h

/-- Nodes, literals and predicates as objects: `ParseObject` gives back the same kind and value. -/
theorem object_round_trip (L : Leaf) (hL : LeafLaws L) (o : Obj) (h : ObjOK L o) : parseObject L (printObj L o) = some o :=
  parseObject_printObj L hL o h

/-- A whole triple — whatever its predicate's ID holds (white space, `] /`, quotes): the object is looked for past the
    quoted ID (`scanQuoted`; before 6b37d2b the splitter matched `] /` INSIDE the quoted ID `"x] /y"`, and the former
    hypothesis `noSpace t.p.id` hid that). `QuoteScans`: scanning the printed ID, a backslash taking the next byte with it,
    stops at its closing quote — a property of `%q`, evaluated on Go by `bwh leaflaws`. -/
theorem triple_round_trip (L : Leaf) (hL : LeafLaws2 L) (t : Triple)
    (hs : NodeOK t.s) (hsty : noSpace t.s.ty) (hsid : noSpace t.s.id) (hq : QuoteScans L t.p.id) (hpo : PredOK L t.p) (ho : ObjOK L t.o) :
    parseTriple L (printTriple L t) = some t :=
  parseTriple_printTriple L hL t hs hsty hsid hq hpo ho

/-- Writing a graph and reading the text back: the same triples, their number, no error. -/
theorem graph_round_trip (L : Leaf) (ts : List Triple) (h : ∀ t ∈ ts, LineOK L t) :
    readLines L (splitLines (writeLines L ts)) = (ts, ts.length, false) :=
  read_write_round_trip L ts h

/-- Printing again gives the same text (a consequence of the round trips: the parsed value IS the value). -/
theorem predicate_print_stable (L : Leaf) (hL : LeafLaws L) (p : Pred) (hp : PredOK L p) :
    (parsePred L (printPred L p)).map (printPred L) = some (printPred L p) := by
  rw [predicate_round_trip L hL p hp]; rfl

theorem triple_print_stable (L : Leaf) (hL : LeafLaws2 L) (t : Triple)
    (hs : NodeOK t.s) (hsty : noSpace t.s.ty) (hsid : noSpace t.s.id) (hq : QuoteScans L t.p.id) (hpo : PredOK L t.p) (ho : ObjOK L t.o) :
    (parseTriple L (printTriple L t)).map (printTriple L) = some (printTriple L t) := by
  rw [triple_round_trip L hL t hs hsty hsid hq hpo ho]; rfl

/-! Non-vacuity: the laws are satisfiable (a toy codec meets all of them), a concrete triple meets the
    hypotheses of `triple_round_trip`, and concrete instances of the integer codec. -/

/-- A (toy) leaf codec that satisfies every law: the hypotheses of the round-trip theorems are satisfiable. -/
def encI (i : Int) : Nat := if i < 0 then 2 * i.natAbs - 1 else 2 * i.toNat
def decI (n : Nat) : Int := if n % 2 = 1 then -(((n + 1) / 2 : Nat) : Int) else ((n / 2 : Nat) : Int)

theorem decI_encI (i : Int) : decI (encI i) = i := by
  unfold decI encI
  by_cases h : i < 0
  · simp only [h, if_true]
    have : (2 * i.natAbs - 1) % 2 = 1 := by omega
    simp only [this, if_true]
    omega
  · simp only [h, if_false]
    have : (2 * i.toNat) % 2 = 0 := by omega
    simp only [this]
    omega

def toyLeaf : Leaf where
  quote := fun i => [dq] ++ i ++ [dq]
  unquote := fun s => some ((s.drop 1).dropLast)
  fmtTime := fun t => List.replicate (encI t.nanos) 49 ++ [48] ++ List.replicate (encI t.off) 49
  parseTime := fun s => some ⟨decI (s.takeWhile (· == 49)).length, decI (s.drop ((s.takeWhile (· == 49)).length + 1)).length⟩
  fmtFloat := fun b => List.replicate b 49
  parseFloat := fun s => some s.length

theorem takeWhile_replicate (n : Nat) (rest : Bytes) :
    (List.replicate n (49 : UInt8) ++ 48 :: rest).takeWhile (· == 49) = List.replicate n 49 := by
  induction n with
  | zero => simp [List.takeWhile]
  | succ n ih => simp [List.replicate_succ, List.takeWhile, ih]

theorem toyLeaf_laws : LeafLaws2 toyLeaf where
  unq_quote := by intro i; simp [toyLeaf]
  quote_shape := by intro i; exact ⟨i, by simp [toyLeaf]⟩
  time_parsed_ok := by intro s t _; rfl
  time_round := by
    intro t _
    simp only [toyLeaf]
    have e : List.replicate (encI t.nanos) (49 : UInt8) ++ [48] ++ List.replicate (encI t.off) 49 =
        List.replicate (encI t.nanos) 49 ++ 48 :: List.replicate (encI t.off) 49 := by simp
    rw [e, takeWhile_replicate]
    have hd : (List.replicate (encI t.nanos) (49 : UInt8) ++ 48 :: List.replicate (encI t.off) 49).drop
        ((List.replicate (encI t.nanos) (49 : UInt8)).length + 1) = List.replicate (encI t.off) 49 := drop_mid _ _ _
    rw [hd]
    simp only [List.length_replicate, decI_encI]
  time_noDq := by
    intro t hm
    simp only [toyLeaf, List.mem_append, List.mem_replicate, List.mem_singleton] at hm
    rcases hm with (⟨_, h⟩ | h) | ⟨_, h⟩ <;> revert h <;> decide
  time_nonempty := by intro t; simp [toyLeaf]
  float_round := by intro b _; simp [toyLeaf]
  float_parsed_ok := by intro s b _; rfl
  float_noDq := by
    intro b hm
    simp only [toyLeaf, List.mem_replicate] at hm
    exact absurd hm.2 (by decide)
  quote_noSpace := by
    intro i hi c hc
    simp only [toyLeaf, List.mem_append, List.mem_singleton] at hc
    rcases hc with (rfl | hc) | rfl
    · decide
    · exact hi c hc
    · decide
  time_noSpace := by
    intro t c hc
    simp only [toyLeaf, List.mem_append, List.mem_replicate, List.mem_singleton] at hc
    rcases hc with (⟨_, rfl⟩ | rfl) | ⟨_, rfl⟩ <;> decide

/-- The predicate's ID is `x] /y`: the point the former hypothesis excluded. -/
def exTriple : Triple := ⟨⟨[47, 117], [97]⟩, .tmp [120, 93, 32, 47, 121] ⟨5, 3600⟩, .lit (.text [32, 93, 32, 47])⟩
example : parseTriple toyLeaf (printTriple toyLeaf exTriple) = some exTriple :=
  triple_round_trip toyLeaf toyLeaf_laws exTriple ⟨by decide, by decide, by decide⟩ (by intro c hc; revert c; decide)
    (by intro c hc; revert c; decide)
    (by
      intro qb hqb rest
      have : qb = [120, 93, 32, 47, 121] := by
        have h' : ([120, 93, 32, 47, 121] : Bytes) ++ [dq] = qb ++ [dq] := by
          simpa [toyLeaf, exTriple, Pred.id] using hqb
        exact (List.append_cancel_right h').symm
      subst this
      have e : scanQuoted ((34 : UInt8) :: rest) = 0 := by rw [scanQuoted.eq_def]; rfl
      simp [scanQuoted, dq, e])
    rfl trivial
example : parseNode (printNode ⟨[47, 117], [97, 32, 98]⟩) = some ⟨[47, 117], [97, 32, 98]⟩ := by decide
example : parseInt64 (fmtInt (-9223372036854775808)) = some (-9223372036854775808) := by
  exact parseInt64_fmtInt _ (by constructor <;> decide)
example : IsI64 9223372036854775807 := by constructor <;> decide

/-- What `node.NewType` accepts holds no angle bracket (fix d18ea1b): `NodeOK.tyNoLt` is true of every node that can be built. -/
theorem accepted_node_type_has_no_angle_bracket (t : Bytes) (h : validType t = true) : lt ∉ t ∧ gt ∉ t := by
  simp only [validType, Bool.and_eq_true, Bool.not_eq_true'] at h
  have h2 := h.2
  unfold containsAny at h2
  constructor
  · intro hm
    have : t.any (fun c => [lt, gt].contains c) = true := List.any_eq_true.mpr ⟨lt, hm, by decide⟩
    rw [this] at h2; cases h2
  · intro hm
    have : t.any (fun c => [lt, gt].contains c) = true := List.any_eq_true.mpr ⟨gt, hm, by decide⟩
    rw [this] at h2; cases h2

/-- A node whose type and ID the constructors accept round-trips: nothing else is asked of it. -/
theorem constructed_node_round_trips (n : Node) (hty : validType n.ty = true) (hid : validID n.id = true) :
    parseNode (printNode n) = some n :=
  node_round_trip n ⟨hty, (accepted_node_type_has_no_angle_bracket n.ty hty).1, hid⟩

end BW.Props.C05

#print axioms BW.Props.C05.node_round_trip
#print axioms BW.Props.C05.predicate_round_trip
#print axioms BW.Props.C05.literal_round_trip_bool
#print axioms BW.Props.C05.literal_round_trip_int
#print axioms BW.Props.C05.literal_round_trip_float
#print axioms BW.Props.C05.literal_round_trip_text
#print axioms BW.Props.C05.literal_round_trip_blob
#print axioms BW.Props.C05.literal_round_trip
#print axioms BW.Props.C05.int64_text_round_trip
#print axioms BW.Props.C05.object_round_trip
#print axioms BW.Props.C05.triple_round_trip
#print axioms BW.Props.C05.graph_round_trip
#print axioms BW.Props.C05.triple_print_stable
#print axioms BW.Props.C05.predicate_print_stable
#print axioms BW.Props.C05.toyLeaf_laws
#print axioms BW.Props.C05.accepted_node_type_has_no_angle_bracket
#print axioms BW.Props.C05.constructed_node_round_trips
