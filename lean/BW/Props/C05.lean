/-
C05 — Printed nodes, predicates, literals, triples, graphs parse back to equal values.  (partial)

Model: BW/Model/Text.lean — the structure of the text forms (which characters separate the parts,
where the parsers cut); the leaf codecs of the Go standard library (`%q` / strconv.Unquote,
RFC3339Nano, `%v` of a float64 / ParseFloat) are parameters with the laws `LeafLaws`.
PROVED, for every value of the documented domain and every leaf codec satisfying the laws:
  * `node_round_trip`      — parse (print n) = n (type a '/'-path without '<', ID without '<' '>');
  * `predicate_round_trip` — parse (print p) = p for every ID whatsoever (quotes, brackets,
    backslashes, the separator itself: the parser cuts at the LAST `"@[`) and every anchor;
  * `literal_round_trip_*` — bool, int64 (the full range, digit by digit), float64 (through the leaf
    law), text (any bytes, the separator `"^^type:` included: cut at the LAST occurrence);
  * `int64_text_round_trip` — the decimal printer/parser pair used for int64.
NOT proved here (tied by the correspondence only): blobs, the triple-level split
(`>\s+"`, `]\s+[/"]`) and the graph writer/reader composition; the leaf laws themselves (Go's
standard library is trusted; every use is cross-checked through the oracle tables of the runs).
Known finding D06: a text literal containing a line feed breaks the one-triple-per-line protocol.
-/
import BW.Proofs.Text

namespace BW.Props.C05
open BW.Model BW.Model.Text BW.Proofs.Text

theorem node_round_trip (n : Node) (h : NodeOK n) : parseNode (printNode n) = some n :=
  parseNode_printNode n h

theorem predicate_round_trip (L : Leaf) (hL : LeafLaws L) (p : Pred) : parsePred L (printPred L p) = some p :=
  parsePred_printPred L hL p

theorem literal_round_trip_bool (L : Leaf) (b : Bool) : parseLit L (printLit L (.bool b)) = some (.bool b) :=
  parseLit_printLit_bool L b

theorem literal_round_trip_int (L : Leaf) (i : Int) (h : IsI64 i) : parseLit L (printLit L (.int i)) = some (.int i) :=
  parseLit_printLit_int L i h

theorem literal_round_trip_float (L : Leaf) (hL : LeafLaws L) (bits : Nat) :
    parseLit L (printLit L (.float bits)) = some (.float bits) :=
  parseLit_printLit_float L hL bits

theorem literal_round_trip_text (L : Leaf) (t : Bytes) : parseLit L (printLit L (.text t)) = some (.text t) :=
  parseLit_printLit_text L t

theorem int64_text_round_trip (i : Int) (h : IsI64 i) : parseInt64 (fmtInt i) = some i :=
  parseInt64_fmtInt i h

/-- Printing again gives the same text (a consequence of the round trips: the parsed value IS the value). -/
theorem predicate_print_stable (L : Leaf) (hL : LeafLaws L) (p : Pred) :
    (parsePred L (printPred L p)).map (printPred L) = some (printPred L p) := by
  rw [predicate_round_trip L hL p]; rfl

/-! Non-vacuity: a leaf codec satisfying the laws on the values used (identity quoting of quote-free
    ids is not a model of %q; the point is that the hypotheses are satisfiable), and concrete instances. -/
example : parseNode (printNode ⟨[47, 117], [97, 32, 98]⟩) = some ⟨[47, 117], [97, 32, 98]⟩ := by decide
example : parseInt64 (fmtInt (-9223372036854775808)) = some (-9223372036854775808) := by
  exact parseInt64_fmtInt _ (by constructor <;> decide)
example : IsI64 9223372036854775807 := by constructor <;> decide

end BW.Props.C05

#print axioms BW.Props.C05.node_round_trip
#print axioms BW.Props.C05.predicate_round_trip
#print axioms BW.Props.C05.literal_round_trip_bool
#print axioms BW.Props.C05.literal_round_trip_int
#print axioms BW.Props.C05.literal_round_trip_float
#print axioms BW.Props.C05.literal_round_trip_text
#print axioms BW.Props.C05.int64_text_round_trip
#print axioms BW.Props.C05.predicate_print_stable
