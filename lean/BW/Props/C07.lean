/-
C07 — Concurrent use of a store: linearizable, race-free, deadlock-free.  (partial)

What is proved, and about what.  The memory driver protects each graph (and the store's table of
graphs) with one reader/writer lock; `lockfacts` reads the discipline off memory.go on every run.
PROVED:
  * `lock_discipline` (regenerated obligations) — every method that touches an index does so only after
    taking the lock of its receiver; methods that take the read lock write no index; AddTriples holds
    the write lock for the whole batch, RemoveTriples once per triple; no method calls another locking
    method of the same receiver (no nesting);
  * `no_lock_cycle` — with one lock at a time nobody waits in a cycle: whenever a thread waits, some
    unfinished thread holds what it waits for and is not itself waiting FOR A LOCK. A look-up, however, also
    waits for its consumer while it holds the read lock; that is the subject of the next item;
  * `draining_consumer_never_halts`, `without_writer_nothing_halts`, `consumer_reading_the_graph_can_halt`,
    `halt_search_sound` (Model/Chan.lean: one graph lock with Go's writer preference, a look-up of n results that
    sends under the read lock, its consumer doing b reads of the same graph per result, one writer) — a consumer
    that only drains never brings the three to a halt, for every n and every schedule; nor does anything halt
    without a writer; but with n ≥ 2, b ≥ 1 and a writer a halt IS reachable (the witness is replayed on the
    implementation by the `N` lines: known finding D37);
  * `using_the_store_mid_lookup_never_halts`, `nested_locks_can_halt` (Model/Chan2.lean: the store's lock and a graph's) —
    a consumer that uses the store between two results while another goroutine drops the graph never halts anything,
    because every method holds one lock at a time; a `DeleteGraph` that waited for the graph's lock while holding the
    store's would (the `S` lines run this on the implementation);
  * `rw_linearizable`, `rw_real_time` — calls that follow this discipline (one readers-writer lock, taken for the whole
    body: exclusive by updates, shared by look-ups), modelled in small steps (an update is a sequence of micro-writes, a
    look-up a sequence of micro-reads), are linearizable for every number of calls, every batch size and every
    interleaving: what each returned is what it returns when the calls run whole, one at a time, in the order in which
    they obtained the lock, and that order respects real time; `store_batch_is_atomic` instantiates it at the store
    model (AddTriples = one `add1` per triple);
  * `search_sound` — the linearizability search used on recorded histories only answers "linearizable"
    when an order consistent with real time exists in which the sequential specification
    (`BW.Model.Linear.step`: batch adds atomic, removes per triple, whole look-ups) returns exactly the
    recorded results; `partial_batch_is_not_linearizable` shows it rejects a look-up that saw half a batch.
NOT provable on a model: data-race freedom and the memory model of Go, fairness of the runtime's
locks, that the code inside the lock regions is what the sequential models of C01/C02 say (that is
C01's tie).  Tie: `conc` runs — thousands of small concurrent histories recorded on the real driver
and searched for a linearization by the Lean driver; every look-up method on its success and error
paths closes its channel exactly once and leaves the caller's options untouched; a randomized stress
run of 12 goroutines (shared LookupOptions values included) under the Go race detector.
-/
import BW.Proofs.Linear
import BW.Generated.LockFacts
import BW.Proofs.RW
import BW.Model.Store
import BW.Proofs.Chan
import BW.Proofs.Chan2

namespace BW.Props.C07
open BW.Model.Linear BW.Proofs.Linear BW.Generated

/-- Regenerated obligations: the lock discipline of memory.go. -/
theorem lock_discipline :
    (lockFacts.all fun f => !f.touchesIndexes || (f.lock != .none && f.underLock)) = true ∧
    (lockFacts.all fun f => f.lock != .read || !f.writesIndex) = true ∧
    (lockFacts.all fun f => !f.callsLocking) = true ∧
    (lockFacts.any fun f => f.name == "AddTriples" && f.lock == .write && f.scope == .whole) = true ∧
    (lockFacts.any fun f => f.name == "RemoveTriples" && f.lock == .write && f.scope == .perElement) = true ∧
    (lockFacts.all fun f => f.lock == .none || f.scope != .none) = true := by decide

/-- The look-ups are all there and all take the read lock for the whole call (so a look-up sees one
    state of the graph, never half a batch). -/
theorem lookups_read_locked :
    (["Objects", "Subjects", "PredicatesForSubject", "PredicatesForObject", "PredicatesForSubjectAndObject",
      "TriplesForSubject", "TriplesForPredicate", "TriplesForObject", "TriplesForSubjectAndPredicate",
      "TriplesForPredicateAndObject", "Triples", "Exist"].all fun n =>
        lockFacts.any fun f => f.name == n && f.lock == .read && f.scope == .whole) = true := by decide

theorem no_lock_cycle (ts : List ThreadL) (hn : ∀ t ∈ ts, nonNested t) (hw : waitsForHeld ts)
    (t : ThreadL) (ht : t ∈ ts) (l : Nat) (hl : t.waiting = some l) :
    ∃ h ∈ ts, h.finished = false ∧ h.waiting = none :=
  BW.Proofs.Linear.no_lock_cycle ts hn hw t ht l hl

theorem search_sound (f : Nat) (s : State) (pending : List HOp) (h : search f s pending = true) : Lin s pending :=
  BW.Proofs.Linear.search_sound f s pending h

/-- A look-up that returns one of two triples added by one concurrent AddTriples has no linearization. -/
def g : List UInt8 := [63, 103]
def halfBatch : List HOp := [
  ⟨-1, 0, 0, .init, g, [], .set []⟩,
  ⟨0, 1, 4, .add, g, [0, 1], .ok⟩,
  ⟨1, 2, 3, .triples, g, [], .set [0]⟩]
theorem partial_batch_is_not_linearizable : search 4 [] halfBatch = false := by decide

/-- … while seeing none or both is fine, and half a batch of removes is allowed (per-triple). -/
example : search 4 [] [⟨-1, 0, 0, .init, g, [], .set []⟩, ⟨0, 1, 4, .add, g, [0, 1], .ok⟩, ⟨1, 2, 3, .triples, g, [], .set [0, 1]⟩] = true := by decide
example : search 5 [] [⟨-1, 0, 0, .init, g, [0, 1], .set [0, 1]⟩, ⟨0, 1, 4, .rem1, g, [0], .ok⟩, ⟨0, 1, 4, .rem1, g, [1], .ok⟩,
    ⟨1, 2, 3, .triples, g, [], .set [1]⟩] = true := by decide

/-! ### Linearizability of calls under the readers-writer lock, for every interleaving -/

/-- Every call that has returned returned what it returns when the calls are executed whole, one at a time,
    in the order in which they obtained the lock; the state the next lock holder sees is the state of that
    sequential execution. For every list of calls (updates of any number of micro-writes, look-ups of any
    number of micro-reads) and every schedule of their small steps. -/
theorem rw_linearizable {σ ρ : Type} (x0 : σ) (ops : List (BW.Model.RW.Op σ ρ)) (sched : List Nat) :
    let s := (BW.Model.RW.start x0 ops).run sched
    (∀ (i : Nat) r, s.ths[i]? = some (.done r) → (i, r) ∈ (BW.Model.RW.seqRun x0 ops s.order).2) ∧
    (BW.Model.RW.seqRun x0 ops s.order).1 = s.abs :=
  BW.Model.RW.linearizable x0 ops sched

/-- The order respects real time: a call that had returned when another had not yet been invoked comes
    before it. -/
theorem rw_real_time {σ ρ : Type} (x0 : σ) (ops : List (BW.Model.RW.Op σ ρ)) (pre post : List Nat) (i j : Nat)
    (r : List ρ) (o : BW.Model.RW.Op σ ρ)
    (hi : ((BW.Model.RW.start x0 ops).run pre).ths[i]? = some (.done r))
    (hj : ((BW.Model.RW.start x0 ops).run pre).ths[j]? = some (.idle o)) :
    ∃ a b, (((BW.Model.RW.start x0 ops).run pre).run post).order = a ++ b ∧ i ∈ a ∧ j ∉ a :=
  BW.Model.RW.real_time x0 ops pre post i j r o hi hj

/-- At the store model: `AddTriples` as one micro-write per triple (the loop of memory.go) has, as its
    sequential meaning, the whole batch (`Graph.addAll`) — which is what every other call observes. -/
theorem store_batch_is_atomic (F : BW.Model.Facts) (g : BW.Model.Graph) (ts : List BW.Model.TView) :
    ((BW.Model.RW.Op.write (ρ := Unit) (ts.map fun t g => g.add1 F t)).apply g).1 = g.addAll F ts := by
  simp only [BW.Model.RW.Op.apply, BW.Model.Graph.addAll]
  induction ts generalizing g with
  | nil => rfl
  | cons t ts ih => simp only [List.map_cons, List.foldl_cons]; exact ih (g.add1 F t)

/-- Non-vacuity: a writer of two micro-writes and a reader; the schedule lets the reader try in the middle
    of the batch — it has to wait, and sees the whole batch. -/
def exOps : List (BW.Model.RW.Op Nat Nat) := [.write [(· + 1), (· + 1)], .read [id]]
def resultOf : Option (BW.Model.RW.Th Nat Nat) → Option (List Nat)
  | some (.done r) => some r
  | _ => none
example :
    resultOf (((BW.Model.RW.start 0 exOps).run [0, 1, 0, 0, 1, 1, 0, 0, 1, 1, 1]).ths[1]?) = some [2] ∧
    ((BW.Model.RW.start 0 exOps).run [0, 1, 0, 0, 1, 1, 0, 0, 1, 1, 1]).order = [0, 1] := by decide


/-! ### A look-up sends under the read lock: when can its consumer, a writer and the look-up halt? -/

open BW.Model.Chan in
/-- A consumer that only drains the channel: whatever the number of results and the schedule (a writer included),
    either everybody has finished or somebody can move. -/
theorem draining_consumer_never_halts (n : Nat) (sched : List Tid) :
    (run (start n 0) sched).finished = true ∨ (run (start n 0) sched).stuck = false :=
  drain_never_deadlocks n sched

open BW.Model.Chan in
/-- Without a writer nothing halts, whatever the consumer reads in between. -/
theorem without_writer_nothing_halts (n b : Nat) (sched : List Tid) :
    (run ⟨n, b, .idle, .waitRecv, .done⟩ sched).finished = true ∨ (run ⟨n, b, .idle, .waitRecv, .done⟩ sched).stuck = false :=
  no_writer_never_deadlocks n b sched

open BW.Model.Chan in
/-- The property FAILS on this model (and on the code — D37): two results, a consumer that tests what it received,
    a writer arriving in between. -/
theorem consumer_reading_the_graph_can_halt :
    (run (start 2 1) [.p, .p, .w]).stuck = true ∧ (run (start 2 1) [.p, .p, .w]).finished = false :=
  nested_read_deadlocks

open BW.Model.Chan in
/-- The driver's answer "can-halt" on an `N` line is backed by a schedule. -/
theorem halt_search_sound (fuel : Nat) (s0 : Sys) (h : canHalt fuel [s0] = true) :
    ∃ sched, (run s0 sched).stuck = true ∧ (run s0 sched).finished = false := by
  obtain ⟨s, hs, sched, hr⟩ := canHalt_sound fuel [s0] h
  rw [List.mem_singleton.mp hs] at hr
  exact ⟨sched, hr⟩

/-- The fact the model rests on, regenerated: every look-up holds the read lock for its whole body — sends included. -/
example : (lockFacts.any fun f => f.name == "Triples" && f.lock == .read && f.scope == .whole) = true := by decide

/-! ### Two locks: the store's and a graph's -/

open BW.Model.Chan2 in
/-- A consumer that uses the store (Graph, GraphNames, NewGraph, DeleteGraph of another graph) between two results of a
    look-up, while another goroutine drops the graph it reads: nothing halts, for every number of results and every
    schedule — because every method holds one lock at a time (`lock_discipline`: no method locks anything but its
    receiver's mutex). -/
theorem using_the_store_mid_lookup_never_halts (n : Nat) (sched : List Tid) :
    (run (start n false) sched).finished = true ∨ (run (start n false) sched).stuck = false :=
  store_use_never_deadlocks n sched

open BW.Model.Chan2 in
/-- … and why the discipline matters: a `DeleteGraph` that waits for the graph's lock while it holds the store's halts
    the three (the look-up waits for its consumer, the consumer for the store, `DeleteGraph` for the look-up). -/
theorem nested_locks_can_halt :
    (run (start 2 true) [.p, .p, .d]).stuck = true ∧ (run (start 2 true) [.p, .p, .d]).finished = false :=
  nested_delete_deadlocks

end BW.Props.C07

#print axioms BW.Props.C07.lock_discipline
#print axioms BW.Props.C07.lookups_read_locked
#print axioms BW.Props.C07.no_lock_cycle
#print axioms BW.Props.C07.search_sound
#print axioms BW.Props.C07.partial_batch_is_not_linearizable
#print axioms BW.Props.C07.rw_linearizable
#print axioms BW.Props.C07.rw_real_time
#print axioms BW.Props.C07.store_batch_is_atomic
#print axioms BW.Props.C07.draining_consumer_never_halts
#print axioms BW.Props.C07.without_writer_nothing_halts
#print axioms BW.Props.C07.consumer_reading_the_graph_can_halt
#print axioms BW.Props.C07.halt_search_sound
#print axioms BW.Props.C07.using_the_store_mid_lookup_never_halts
#print axioms BW.Props.C07.nested_locks_can_halt
