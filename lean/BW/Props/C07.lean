/-
C07 — Concurrent use of a store: linearizable, race-free, deadlock-free.  (partial)

What is proved, and about what.  The memory driver protects each graph (and the store's table of
graphs) with one reader/writer lock; `lockfacts` reads the discipline off memory.go on every run.
PROVED:
  * `lock_discipline` (regenerated obligations) — every method that touches an index does so only after
    taking the lock of its receiver; methods that take the read lock write no index; AddTriples holds
    the write lock for the whole batch, RemoveTriples once per triple; no method calls another locking
    method of the same receiver (no nesting);
  * `no_lock_cycle` — with one lock at a time nobody waits in a cycle: whenever a thread waits, some
    unfinished thread holds what it waits for and is not itself waiting (deadlock needs a consumer that
    stops draining a channel while the producer holds the read lock — the property's proviso);
  * `search_sound` — the linearizability search used on recorded histories only answers "linearizable"
    when an order consistent with real time exists in which the sequential specification
    (`BW.Model.Linear.step`: batch adds atomic, removes per triple, whole look-ups) returns exactly the
    recorded results; `partial_batch_is_not_linearizable` shows it rejects a look-up that saw half a batch.
NOT provable on a model: data-race freedom and the memory model of Go, fairness of the runtime's
locks, that the code inside the lock regions is what the sequential models of C01/C02 say (that is
C01's tie).  Tie: `conc` runs — thousands of small concurrent histories recorded on the real driver
and searched for a linearization by the Lean driver; every look-up method on its success and error
paths closes its channel exactly once and leaves the caller's options untouched; a randomized stress
run of 12 goroutines (shared LookupOptions values included) under the Go race detector.
-/
import BW.Proofs.Linear
import BW.Generated.LockFacts

namespace BW.Props.C07
open BW.Model.Linear BW.Proofs.Linear BW.Generated

/-- Regenerated obligations: the lock discipline of memory.go. -/
theorem lock_discipline :
    (lockFacts.all fun f => !f.touchesIndexes || (f.lock != .none && f.underLock)) = true ∧
    (lockFacts.all fun f => f.lock != .read || !f.writesIndex) = true ∧
    (lockFacts.all fun f => !f.callsLocking) = true ∧
    (lockFacts.any fun f => f.name == "AddTriples" && f.lock == .write && f.scope == .whole) = true ∧
    (lockFacts.any fun f => f.name == "RemoveTriples" && f.lock == .write && f.scope == .perElement) = true ∧
    (lockFacts.all fun f => f.lock == .none || f.scope != .none) = true := by decide

/-- The look-ups are all there and all take the read lock for the whole call (so a look-up sees one
    state of the graph, never half a batch). -/
theorem lookups_read_locked :
    (["Objects", "Subjects", "PredicatesForSubject", "PredicatesForObject", "PredicatesForSubjectAndObject",
      "TriplesForSubject", "TriplesForPredicate", "TriplesForObject", "TriplesForSubjectAndPredicate",
      "TriplesForPredicateAndObject", "Triples", "Exist"].all fun n =>
        lockFacts.any fun f => f.name == n && f.lock == .read && f.scope == .whole) = true := by decide

theorem no_lock_cycle (ts : List ThreadL) (hn : ∀ t ∈ ts, nonNested t) (hw : waitsForHeld ts)
    (t : ThreadL) (ht : t ∈ ts) (l : Nat) (hl : t.waiting = some l) :
    ∃ h ∈ ts, h.finished = false ∧ h.waiting = none :=
  BW.Proofs.Linear.no_lock_cycle ts hn hw t ht l hl

theorem search_sound (f : Nat) (s : State) (pending : List HOp) (h : search f s pending = true) : Lin s pending :=
  BW.Proofs.Linear.search_sound f s pending h

/-- A look-up that returns one of two triples added by one concurrent AddTriples has no linearization. -/
def g : List UInt8 := [63, 103]
def halfBatch : List HOp := [
  ⟨-1, 0, 0, .init, g, [], .set []⟩,
  ⟨0, 1, 4, .add, g, [0, 1], .ok⟩,
  ⟨1, 2, 3, .triples, g, [], .set [0]⟩]
theorem partial_batch_is_not_linearizable : search 4 [] halfBatch = false := by decide

/-- … while seeing none or both is fine, and half a batch of removes is allowed (per-triple). -/
example : search 4 [] [⟨-1, 0, 0, .init, g, [], .set []⟩, ⟨0, 1, 4, .add, g, [0, 1], .ok⟩, ⟨1, 2, 3, .triples, g, [], .set [0, 1]⟩] = true := by decide
example : search 5 [] [⟨-1, 0, 0, .init, g, [0, 1], .set [0, 1]⟩, ⟨0, 1, 4, .rem1, g, [0], .ok⟩, ⟨0, 1, 4, .rem1, g, [1], .ok⟩,
    ⟨1, 2, 3, .triples, g, [], .set [1]⟩] = true := by decide

end BW.Props.C07

#print axioms BW.Props.C07.lock_discipline
#print axioms BW.Props.C07.lookups_read_locked
#print axioms BW.Props.C07.no_lock_cycle
#print axioms BW.Props.C07.search_sound
#print axioms BW.Props.C07.partial_batch_is_not_linearizable
