/-
C02 — Every indexed look-up returns exactly what a scan of the graph would return.
-/
import BW.Proofs.StoreRefine
import BW.Generated.MemoryFacts

namespace BW.Props.C02
open BW.Model BW.Spec BW.Proofs.Store BW.Proofs.Lookup BW.Proofs.StoreRefine BW.Generated

theorem facts_wf : Facts.WF memoryFacts = true := by decide

/-- With default options every one of the ten indexed look-ups (and the full listing) returns the
    stored triples whose fixed components equal the given ones — a filter over a scan of the stored
    set — in `String()` order, on every graph satisfying the index invariant (every reachable graph,
    `C01.inv_reachable`). -/
theorem lookup_eq_scan_default {g : Graph} (hg : Inv memoryFacts g) (m : Method) (a : LArgs)
    (ha : argsOK m a = true) :
    g.lookup memoryFacts m a {} = .ok (sortByStr (g.master.filter (matchesArgs m a))) := by
  rw [lookup_eq_scan facts_wf hg m a {} ha (Or.inr (by decide))]
  have : (g.master.filter (matchesArgs m a)).filter (inWindow {}) = g.master.filter (matchesArgs m a) := by
    apply List.filter_eq_self.mpr
    intro t _
    unfold inWindow
    cases t.pnano <;> rfl
  simp [scanLookup, page, this]

/-- One result per stored triple whose fixed components match, and nothing else (as a multiset). -/
theorem lookup_perm_scan {g : Graph} (hg : Inv memoryFacts g) (m : Method) (a : LArgs)
    (ha : argsOK m a = true) :
    ∃ r, g.lookup memoryFacts m a {} = .ok r ∧ r.Perm (g.master.filter (matchesArgs m a)) :=
  ⟨_, lookup_eq_scan_default hg m a ha, List.mergeSort_perm _ _⟩

/-- No result is derived from a triple that is not (or no longer) stored. -/
theorem lookup_sound {g : Graph} (hg : Inv memoryFacts g) (m : Method) (a : LArgs)
    (ha : argsOK m a = true) (r : List TView) (hr : g.lookup memoryFacts m a {} = .ok r) :
    ∀ t ∈ r, t ∈ g.master ∧ matchesArgs m a t = true := by
  rw [lookup_eq_scan_default hg m a ha] at hr
  injection hr with hr
  subst hr
  intro t ht
  have := (List.mergeSort_perm _ _).mem_iff.mp ht
  exact List.mem_filter.mp this

/-- No stored matching triple is missing. -/
theorem lookup_complete {g : Graph} (hg : Inv memoryFacts g) (m : Method) (a : LArgs)
    (ha : argsOK m a = true) (t : TView) (ht : t ∈ g.master) (hm : matchesArgs m a t = true) :
    ∃ r, g.lookup memoryFacts m a {} = .ok r ∧ t ∈ r :=
  ⟨_, lookup_eq_scan_default hg m a ha,
    (List.mergeSort_perm _ _).mem_iff.mpr (List.mem_filter.mpr ⟨ht, hm⟩)⟩

/-- A predicate handed to a look-up matches stored predicates with the same identifier, the same
    kind and, when temporal, the same instant. -/
theorem matches_pred (q : PQ) (t : TView) :
    predMatches q t = true ↔
      q.pid = t.pid ∧ (q.pnano.isSome = t.pnano.isSome) ∧ (∀ a b, q.pnano = some a → t.pnano = some b → a = b) := by
  unfold predMatches
  simp only [Bool.and_eq_true, beq_iff_eq]
  constructor
  · rintro ⟨h1, h2⟩
    refine ⟨h1, by rw [h2], ?_⟩
    intro a b ha hb
    rw [h2, hb] at ha
    injection ha with ha; exact ha.symm
  · rintro ⟨h1, h2, h3⟩
    refine ⟨h1, ?_⟩
    cases hq : q.pnano <;> cases ht : t.pnano <;> simp_all

/-- After removal a triple is in no look-up result (combining the invariant and soundness). -/
theorem removed_not_returned {g : Graph} (hg : Inv memoryFacts g) (t : TView) (m : Method) (a : LArgs)
    (ha : argsOK m a = true) (r : List TView)
    (hr : (g.rem1 memoryFacts t).lookup memoryFacts m a {} = .ok r) :
    ∀ x ∈ r, x.key ≠ t.key := by
  intro x hx
  have := (lookup_sound (inv_rem1 facts_wf hg t) m a ha r hr x hx).1
  have := (List.mem_filter.mp this).2
  simpa using this

/-! Non-vacuity -/
example : Inv memoryFacts Graph.empty := inv_empty _
example : argsOK .objects { s := [1], p := some ⟨[2], none, []⟩ } = true := by decide

end BW.Props.C02

#print axioms BW.Props.C02.facts_wf
#print axioms BW.Props.C02.lookup_eq_scan_default
#print axioms BW.Props.C02.lookup_perm_scan
#print axioms BW.Props.C02.lookup_sound
#print axioms BW.Props.C02.lookup_complete
#print axioms BW.Props.C02.matches_pred
#print axioms BW.Props.C02.removed_not_returned
