/-
C11 — GROUP BY yields one row per group with correct count, distinct count and sum.
-/
import BW.Proofs.QueryPost
import BW.Proofs.HooksHead
import BW.Proofs.GroupKey

namespace BW.Props.C11
open BW.Model BW.Proofs.QueryPost

/-- Rows are partitioned by their combination of grouping values, whatever kinds a grouping column
    mixes: every group is non-empty and uniform in its id, every row is in the group of its id … -/
theorem groups_partition (S : Strs) (keys : List Bytes) (rows : List Row) :
    (∀ g ∈ gather S keys rows, g ≠ [] ∧ ∃ i, ∀ r ∈ g, r ∈ rows ∧ groupId S keys r = i) ∧
    (∀ r ∈ rows, ∃ g ∈ gather S keys rows, r ∈ g) := gather_spec S keys rows

/-- … and the group ids are pairwise different: exactly one result row per distinct combination. -/
theorem one_row_per_group (S : Strs) (keys : List Bytes) (rows : List Row) :
    ((rows.map (groupId S keys)).foldl (fun acc i => if acc.contains i then acc else acc ++ [i]) []).Nodup :=
  gather_one_per_group S keys rows

/-- count is the number of solutions in the group. -/
theorem count_correct (S : Strs) (fa : Nat → Nat → Nat) (first : Row) (b a : Bytes) (grp : List Row) :
    aggregate S fa first { binding := b, alias := a, op := .count, distinct := false } grp = .ok (.lit (.int grp.length)) :=
  count_is_length S fa first b a grp

/-- count(distinct) is the number of distinct printed values of the binding in the group. -/
theorem count_distinct_correct (S : Strs) (fa : Nat → Nat → Nat) (first : Row) (b a : Bytes) (grp : List Row) :
    aggregate S fa first { binding := b, alias := a, op := .count, distinct := true } grp =
      .ok (.lit (.int (distinctCount S (grp.map fun r => (r.get b).getD .null)))) := by
  simp [aggregate, aggregateWith]

/-- When the pattern has no solutions the result is empty, not a failure. -/
theorem empty_group_by (S : Strs) (fa : Nat → Nat → Nat) (st : Stmt) : groupReduce S fa st [] = .ok [] :=
  group_empty S fa st

/-- sum over int64 values: whenever the engine answers, the answer is the arithmetic sum of the group's values —
    for every group, no range restriction: a sum that is not an int64 is an error (09a61fb, 4abc0e2; the pinned tree
    wrapped: the sum of 9223372036854775807 and 1 was -9223372036854775808). -/
theorem sum_is_arithmetic (S : Strs) (fa : Nat → Nat → Nat) (first : Row) (b a : Bytes) (grp : List Row) (x v : Int)
    (hfirst : first.get b = some (.lit (.int x)))
    (h : aggregate S fa first { binding := b, alias := a, op := .sum } grp = .ok (.lit (.int v))) :
    ∃ xs, intCells (grp.map fun r => (r.get b).getD .null) = .ok xs ∧ v = xs.foldl (· + ·) 0 := by
  simp only [aggregate, aggregateWith, hfirst] at h
  cases hc : intCells (grp.map fun r => (r.get b).getD .null) with
  | error e => simp [hc, bind, Except.bind, Except.map] at h
  | ok xs =>
    refine ⟨xs, rfl, ?_⟩
    simp only [hc, bind, Except.bind] at h
    cases hs : sumEngine xs with
    | error e => simp [hs, Except.map] at h
    | ok w =>
      simp only [hs, Except.map, Except.ok.injEq, Cell.lit.injEq, Lit.int.injEq] at h
      rw [← h]
      exact sumEngine_ok xs w hs

/-- … and the engine answers exactly when that sum is an int64: no condition on the running sums (4abc0e2). The old
    statement needed "every prefix sums within int64" — a hypothesis about the ORDER of the rows of a group, which the
    planner does not fix: 9223372036854775802, 10, -10 had a sum in one order and failed in another. -/
theorem sum_defined (xs : List Int) (h : inInt64 (xs.foldl (· + ·) 0) = true) :
    sumEngine xs = .ok (xs.foldl (· + ·) 0) :=
  sumEngine_defined xs h

/-- The outcome of a sum — value or overflow error — does not depend on the order of the rows of the group. -/
theorem sum_is_order_independent (xs ys : List Int) (h : xs.Perm ys) : sumEngine xs = sumEngine ys :=
  sumEngine_perm xs ys h

/-- The reference's sum (the positive values and the negative values summed apart) is the engine's sum. -/
theorem reference_sum_is_engine_sum (xs : List Int) : sumExact xs = sumEngine xs :=
  sumExact_eq_engine xs

/-- Non-vacuity, at the points the old hypotheses excluded: 2^63-1 + 1 is an error; 2^62 + 2^62 - 1 is not; a running
    sum may leave int64 and come back. -/
example : sumEngine [9223372036854775807, 1] = .error .sumOverflow ∧
    sumEngine [4611686018427387904, 4611686018427387903] = .ok 9223372036854775807 ∧
    sumEngine [9223372036854775802, 10, -10] = .ok 9223372036854775802 := ⟨by rfl, by rfl, by rfl⟩

/-- The composite key of a group identifies its grouping values: `Table.Reduce` writes every grouping value as
    `<length>:<value>;` (7f64a50; the pinned tree joined the values with `;`, so `("a;b","c")` and `("a","b;c")`
    were one group), and two rows get the same key string exactly when their lists of component keys — the
    model's `groupId` — are equal, whatever bytes the values hold. -/
theorem group_key_identifies_the_values (ks ks' : List Bytes) :
    BW.Proofs.GroupKey.encKey ks = BW.Proofs.GroupKey.encKey ks' ↔ ks = ks' :=
  ⟨BW.Proofs.GroupKey.encKey_inj ks ks', fun h => by rw [h]⟩

/-- … which joining with `;` did not: the two lists `["a;b", "c"]` and `["a", "b;c"]` give `a;b;c;`. -/
example : ([[97, 59, 98], [99]] : List Bytes).flatMap (fun k => k ++ [59]) = ([[97], [98, 59, 99]] : List Bytes).flatMap (fun k => k ++ [59]) := by
  decide

/-- GROUP BY means what it says: the keys the semantic hook (`groupByBindings`) collects are the bindings
    listed, in order; `GROUP`, `BY` and the commas change nothing. -/
theorem group_by_means_its_tokens (gs : List Bytes) (h : BW.Model.Hooks.Head) :
    (BW.Proofs.HooksHead.tk .other :: BW.Proofs.HooksHead.tk .other :: BW.Proofs.HooksHead.commaToks gs).foldl BW.Model.Hooks.groupStep h
      = { h with groupBy := h.groupBy ++ gs } :=
  BW.Proofs.HooksHead.group_by_denote gs h

/-! Non-vacuity -/
example : (gather { pred := fun _ => [], time := fun _ => [], lit := fun _ => [] } [[63]] [[([63], Cell.str [1])], [([63], Cell.str [2])], [([63], Cell.str [1])]]).length = 2 := by decide

end BW.Props.C11

#print axioms BW.Props.C11.groups_partition
#print axioms BW.Props.C11.one_row_per_group
#print axioms BW.Props.C11.count_correct
#print axioms BW.Props.C11.count_distinct_correct
#print axioms BW.Props.C11.empty_group_by
#print axioms BW.Props.C11.sum_is_arithmetic
#print axioms BW.Props.C11.sum_defined
#print axioms BW.Props.C11.sum_is_order_independent
#print axioms BW.Props.C11.reference_sum_is_engine_sum
#print axioms BW.Props.C11.group_by_means_its_tokens
#print axioms BW.Props.C11.group_key_identifies_the_values
