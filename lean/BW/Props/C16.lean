/-
C16 — The lexer tokenizes every input faithfully: ordered substrings, one end token.

Model: `BW.Model.Lexer` driven by the keyword / single-symbol / literal-type tables regenerated from
lexer.go's AST; runes arrive classified by Go's own unicode package.  The theorems hold for every
input (any rune list, any classification) — by induction over the input.
-/
import BW.Model.BqlLex
import BW.Proofs.Lexer
import BW.Proofs.LexPrinted

namespace BW.Props.C16
open BW.Model BW.Generated BW.Proofs.Lexer

/-- Regenerated obligation: no keyword or single-symbol entry names the EOF / ERROR kinds. -/
theorem tables_wf : TablesWF bqlLex := by
  unfold TablesWF
  decide

/-- Regenerated obligation: the keywords are non-empty lower-case ASCII words, pairwise different. -/
def keywordsLowerAscii : Bool :=
  lexKeywords.all fun p => !p.1.isEmpty && p.1.all fun c => decide (97 ≤ c ∧ c ≤ 122)
theorem keywords_lower_ascii : keywordsLowerAscii = true := by decide
theorem keywords_distinct : (lexKeywords.map (·.1)).Nodup := by decide

/-- Termination with exactly one terminal token: for every input the lexer emits a body free of
    end-of-input and error tokens followed by exactly one of them, and nothing after it.  (Fuel
    `|input|+1` never runs out: the result has this shape instead of the empty out-of-fuel list.) -/
theorem lex_one_terminal (input : List Rune) : OneTerminal bqlLex (lex bqlLex input) :=
  lexLoop_oneTerminal bqlLex tables_wf _ _ _ _ (Nat.lt_succ_self _)

/-- Token texts are non-overlapping substrings of the input in left-to-right order. -/
theorem lex_substrings (input : List Rune) : Ordered ((lex bqlLex input).map (·.2)) input := by
  have := lexLoop_ordered bqlLex (input.length + 1) bqlLex.tError [] input (Nat.lt_succ_self _)
  simpa [lex] using this

/-- The same two facts from any token boundary, whatever the previous token kind and pending junk. -/
theorem lex_from_boundary (last : Tok) (pending rest : List Rune) :
    OneTerminal bqlLex (lexLoop bqlLex (rest.length + 1) last pending rest) ∧
    Ordered ((lexLoop bqlLex (rest.length + 1) last pending rest).map (·.2)) (pending ++ rest) :=
  ⟨lexLoop_oneTerminal bqlLex tables_wf _ _ _ _ (Nat.lt_succ_self _),
   lexLoop_ordered bqlLex _ _ _ _ (Nat.lt_succ_self _)⟩

/-- Keywords are recognised regardless of letter case: whether a word matches a keyword depends only
    on the simple-fold classes of its runes (for runes whose own fold class is consistent, as Go's
    tables are), so all casings of a keyword are recognised alike. -/
theorem equalFold_fold_only (w : List Rune) (kw : List Nat)
    (hw : ∀ r ∈ w, 97 ≤ r.cp ∧ r.cp ≤ 122 → r.fold = r.cp - 32)
    (hk : ∀ c ∈ kw, 97 ≤ c ∧ c ≤ 122) :
    equalFold w kw = (w.map (·.fold) == kw.map foldAscii) := by
  induction w generalizing kw with
  | nil => cases kw <;> simp [equalFold]
  | cons r rs ih =>
    cases kw with
    | nil => simp [equalFold]
    | cons c cs =>
      have hc := hk c (by simp)
      have ih' := ih cs (fun r hr => hw r (List.mem_cons_of_mem _ hr)) (fun c hc => hk c (List.mem_cons_of_mem _ hc))
      simp only [equalFold, ih', List.map_cons]
      have hfa : foldAscii c = c - 32 := by simp [foldAscii, hc]
      by_cases hcp : r.cp = c
      · have := hw r (by simp) (by rw [hcp]; exact hc)
        have hf : r.fold = foldAscii c := by rw [hfa, this, hcp]
        simp [hcp, hf]
      · by_cases hf : r.fold = foldAscii c
        · simp [hcp, hf]
        · have h1 : (r.cp == c) = false := by simp [hcp]
          have h2 : (r.fold == foldAscii c) = false := by simp [hf]
          simp only [h1, h2, Bool.or_self, Bool.false_and]
          symm
          simp [hf]

theorem kw_case_insensitive (w w' : List Rune)
    (hw : ∀ r ∈ w, 97 ≤ r.cp ∧ r.cp ≤ 122 → r.fold = r.cp - 32)
    (hw' : ∀ r ∈ w', 97 ≤ r.cp ∧ r.cp ≤ 122 → r.fold = r.cp - 32)
    (hfold : w.map (·.fold) = w'.map (·.fold)) :
    findKeyword w lexKeywords = findKeyword w' lexKeywords := by
  have key : ∀ kws : List (List Nat × Tok), (∀ p ∈ kws, ∀ c ∈ p.1, 97 ≤ c ∧ c ≤ 122) →
      findKeyword w kws = findKeyword w' kws := by
    intro kws hk
    induction kws with
    | nil => rfl
    | cons p kws ih =>
      obtain ⟨kw, k⟩ := p
      have hkw := hk (kw, k) (by simp)
      simp only [findKeyword]
      rw [equalFold_fold_only w kw hw hkw, equalFold_fold_only w' kw hw' hkw, hfold,
        ih (fun p hp => hk p (List.mem_cons_of_mem _ hp))]
  apply key
  have := keywords_lower_ascii
  unfold keywordsLowerAscii at this
  intro p hp c hc
  have h1 := List.all_eq_true.mp this p hp
  simp only [Bool.and_eq_true, List.all_eq_true, decide_eq_true_eq] at h1
  exact h1.2 c hc

/-- A rune Go classifies as white space and as nothing else that starts a token. -/
def PlainSpace (r : Rune) : Prop :=
  r.space = true ∧ r.digit = false ∧ r.letter = false ∧ r.cp ≠ 63 ∧ r.cp ≠ 47 ∧ r.cp ≠ 95 ∧ r.cp ≠ 34 ∧
    lookupSingle r.cp lexSingles = none

/-- White space at a token boundary changes nothing: skipping any amount of it leads to the same
    continuation (hence neither kinds nor texts of the following tokens change). -/
theorem ws_invariant (last : Tok) (ws rest : List Rune) (hws : ∀ r ∈ ws, PlainSpace r) (f : Nat) :
    lexLoop bqlLex (f + ws.length) last [] (ws ++ rest) = lexLoop bqlLex f last [] rest := by
  induction ws generalizing f with
  | nil => rfl
  | cons r ws ih =>
    obtain ⟨h1, h2, h3, h4, h5, h6, h7, h8⟩ := hws r (by simp)
    have hd : dispatch bqlLex last r (r :: (ws ++ rest)) = none := by
      simp [dispatch, h2, h3, h4, h5, h6, h7, bqlLex, h8]
    have : f + (r :: ws).length = (f + ws.length) + 1 := by simp only [List.length_cons]; omega
    rw [this]
    simp only [List.cons_append, lexLoop, hd, h1, if_true]
    exact ih (fun r hr => hws r (List.mem_cons_of_mem _ hr)) f

/-! Non-vacuity -/
def exSpace : Rune := { cp := 32, bytes := [32], letter := false, digit := false, space := true, lower := 32, fold := 32 }
example : PlainSpace exSpace := by
  refine ⟨rfl, rfl, rfl, by decide, by decide, by decide, by decide, by decide⟩

/-! ### The printed form of a value is one token carrying exactly that text -/

open BW.Proofs.LexPrinted in
/-- `?name`. -/
theorem printed_binding_is_one_token (q : Rune) (name : List Rune) (hq : q.cp = 63) (hqd : q.digit = false)
    (hn : ∀ x ∈ name, isNameRune x = true) :
    lex bqlLex (q :: name) = [(.BINDING, q :: name), (.EOF, [])] :=
  lex_binding bqlLex q name hq hqd hn

open BW.Proofs.LexPrinted in
/-- `/type<id>`: the type holds no `<`, `>`, `\\`; the ID no `<`, `>` (what `node.NewID` accepts — backslashes
    anywhere, also last). The hypothesis on the type excludes a real point: `node.NewType` accepts `/a\`, whose node prints
    as `/a\<x>`, and the lexer — which reads `\<` as an escaped `<` — answers one ERROR token (known finding D38). -/
theorem printed_node_is_one_token (sl lt gt : Rune) (ty id : List Rune)
    (hsl : sl.cp = 47) (hsd : sl.digit = false) (hlt : lt.cp = 60) (hgt : gt.cp = 62)
    (hty : ∀ x ∈ ty, x.cp ≠ 60 ∧ x.cp ≠ 62 ∧ x.cp ≠ 92) (hid : ∀ x ∈ id, x.cp ≠ 60 ∧ x.cp ≠ 62) :
    lex bqlLex (sl :: (ty ++ lt :: (id ++ [gt]))) = [(.NODE, sl :: (ty ++ lt :: (id ++ [gt]))), (.EOF, [])] :=
  lex_node bqlLex sl lt gt ty id hsl hsd hlt hgt hty hid

open BW.Proofs.LexPrinted in
/-- `_:name`. -/
theorem blank_node_is_one_token (u c l : Rune) (name : List Rune) (hu : u.cp = 95) (hud : u.digit = false)
    (hc : c.cp = 58) (hl : l.letter = true) (hn : ∀ x ∈ name, isNameRune x = true) :
    lex bqlLex (u :: c :: l :: name) = [(.BLANK_NODE, u :: c :: l :: name), (.EOF, [])] :=
  lex_blank bqlLex u c l name hu hud hc hl hn

open BW.Proofs.LexPrinted in
/-- `"id"@[anchor]` and `"id"@[lo,hi]`: the printed ID (`%q`) holds no `"` — plain runes, `\\\\` pairs and
    other escapes — the anchor part no `]` and at most one comma: PREDICATE without a comma, PREDICATE_BOUND with
    one. (Before ed4a530 an ID ending with a backslash was refused: `PBody.pair` is what the repair added.) -/
theorem printed_predicate_is_one_token (q q2 at_ lb rb : Rune) (body anchor : List Rune)
    (hq : Delim q 34) (hqd : q.digit = false) (hq2 : Delim q2 34) (hat : Delim at_ 64) (hlb : Delim lb 91) (hrb : rb.cp = 93)
    (hbody : PBody body) (hok : ∀ r ∈ body, RuneOK r) (ha : ∀ x ∈ anchor, x.cp ≠ 93) (hc : commaCount anchor ≤ 1) :
    lex bqlLex (q :: (body ++ q2 :: at_ :: lb :: (anchor ++ [rb]))) =
      [(if commaCount anchor == 0 then .PREDICATE else .PREDICATE_BOUND, q :: (body ++ q2 :: at_ :: lb :: (anchor ++ [rb]))), (.EOF, [])] :=
  lex_predicate bqlLex q q2 at_ lb rb body anchor hq hqd hq2 hat hlb hrb hbody hok ha hc

open BW.Proofs.LexPrinted in
/-- `"value"^^type:T`: the value holds no `"` and does not end with a backslash — exactly the boundary of known
    finding D36 — and `T` is a literal type name in any letter case. -/
theorem printed_literal_is_one_token (q q2 : Rune) (v dl ty : List Rune)
    (hq : Delim q 34) (hqd : q.digit = false) (hq2 : Delim q2 34)
    (hv : ∀ x ∈ v, RuneOK x ∧ x.cp ≠ 34) (hl : NoTrailingBackslash v)
    (hdl : (q2 :: dl).map (·.lower) = [34, 94, 94, 116, 121, 112, 101, 58]) (hdb : runesBytes (q2 :: dl) = litTypePat)
    (hty : ∀ x ∈ ty, (x.letter || x.digit) = true) (htb : (34 : UInt8) ∉ runesBytes ty)
    (hknown : bqlLex.litTypes.contains (lowerCps ty) = true) :
    lex bqlLex (q :: (v ++ q2 :: (dl ++ ty))) = [(.LITERAL, q :: (v ++ q2 :: (dl ++ ty))), (.EOF, [])] :=
  lex_literal bqlLex q q2 v dl ty hq hqd hq2 hv hl hdl hdb hty htb hknown

/-- ASCII runes as Go classifies them (for the non-vacuity examples). -/
def ar (c : Nat) : Rune :=
  { cp := c, bytes := [c.toUInt8], letter := decide ((65 ≤ c ∧ c ≤ 90) ∨ (97 ≤ c ∧ c ≤ 122)), digit := decide (48 ≤ c ∧ c ≤ 57),
    space := c == 32, lower := asciiLower c, fold := if 97 ≤ c ∧ c ≤ 122 then c - 32 else c }

open BW.Proofs.LexPrinted in
/-- Non-vacuity: `"a\\\\"@[]` (an ID ending with a backslash) and `"a"^^type:text` meet the hypotheses. -/
example : lex bqlLex (ar 34 :: ([ar 97, ar 92, ar 92] ++ ar 34 :: ar 64 :: ar 91 :: ([] ++ [ar 93]))) =
    [(.PREDICATE, ar 34 :: ([ar 97, ar 92, ar 92] ++ ar 34 :: ar 64 :: ar 91 :: ([] ++ [ar 93]))), (.EOF, [])] :=
  printed_predicate_is_one_token (ar 34) (ar 34) (ar 64) (ar 91) (ar 93) [ar 97, ar 92, ar 92] []
    ⟨rfl, rfl, rfl⟩ rfl ⟨rfl, rfl, rfl⟩ ⟨rfl, rfl, rfl⟩ ⟨rfl, rfl, rfl⟩ rfl
    (PBody.plain _ _ (by decide) (PBody.pair _ _ _ rfl rfl PBody.nil))
    (by intro r hr; simp only [List.mem_cons, List.not_mem_nil, or_false] at hr; rcases hr with e | e | e <;> subst e <;>
          exact ⟨fun _ => rfl, fun h => absurd h (by decide)⟩)
    (by intro x hx; cases hx) (by decide)

open BW.Proofs.LexPrinted in
example : lex bqlLex (ar 34 :: ([ar 97] ++ ar 34 :: ([ar 94, ar 94, ar 116, ar 121, ar 112, ar 101, ar 58] ++ [ar 116, ar 101, ar 120, ar 116]))) =
    [(.LITERAL, ar 34 :: ([ar 97] ++ ar 34 :: ([ar 94, ar 94, ar 116, ar 121, ar 112, ar 101, ar 58] ++ [ar 116, ar 101, ar 120, ar 116]))), (.EOF, [])] :=
  printed_literal_is_one_token (ar 34) (ar 34) [ar 97] [ar 94, ar 94, ar 116, ar 121, ar 112, ar 101, ar 58] [ar 116, ar 101, ar 120, ar 116]
    ⟨rfl, rfl, rfl⟩ rfl ⟨rfl, rfl, rfl⟩
    (by intro x hx; simp only [List.mem_singleton] at hx; subst hx; exact ⟨⟨fun _ => rfl, fun h => absurd h (by decide)⟩, by decide⟩)
    (by intro x hx; simp only [List.getLast?_singleton, Option.some.injEq] at hx; subst hx; decide)
    (by decide) (by decide) (by decide) (by decide) (by decide)

end BW.Props.C16

#print axioms BW.Props.C16.tables_wf
#print axioms BW.Props.C16.keywords_lower_ascii
#print axioms BW.Props.C16.keywords_distinct
#print axioms BW.Props.C16.lex_one_terminal
#print axioms BW.Props.C16.lex_substrings
#print axioms BW.Props.C16.lex_from_boundary
#print axioms BW.Props.C16.equalFold_fold_only
#print axioms BW.Props.C16.kw_case_insensitive
#print axioms BW.Props.C16.ws_invariant
#print axioms BW.Props.C16.printed_binding_is_one_token
#print axioms BW.Props.C16.printed_node_is_one_token
#print axioms BW.Props.C16.blank_node_is_one_token
#print axioms BW.Props.C16.printed_predicate_is_one_token
#print axioms BW.Props.C16.printed_literal_is_one_token
