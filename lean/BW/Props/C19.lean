/-
C19 — The memoizing store is observationally identical to the store it wraps.

Model: BW/Model/Memo.lean (sequential and small-step semantics of the memoizer over an abstract
wrapped store); the memoizer's key and its protections are read off the source by `memofacts`
(BW/Generated/MemoFacts.lean).

PROVED:
  * `sequential_transparent` — every history of reads and writes through the memoizer returns, read by
    read, what the wrapped store would return at that moment, provided the key determines the answer;
  * `options_key_covers`, `arguments_in_key`, `methods_keyed_apart` — regenerated obligations: every field
    of LookupOptions (Offset included) is in the printed form the key hashes, every argument of every
    memoizing method is in its key, and no two methods share an operation tag;
  * `interleaved_transparent` — for ANY number of concurrent readers and writers and EVERY interleaving
    of the memoizer's internal steps: whenever no update is between its forwarding and its closing
    reset, everything memoized equals the wrapped store's current answer; hence (`no_stale_after_write`)
    a lookup that starts after an update returned never sees the state before it;
  * `protections_in_place` — regenerated obligations: stores are guarded by the generation check and
    by `err == nil`, updates reset before and after forwarding, all handles of a graph share one memoizer;
  * `stale_without_generation_check`, `stale_without_closing_reset` — each protection is needed: without
    it a schedule leaves a stale answer memoized after the update returned (D25, repaired).
ASSUMED: the UUIDs that make up a key identify the arguments (C06; its known collisions apply here too).
Tie: `memo` correspondence — lockstep histories through 1–3 handles against the wrapped store (every
method, every option incl. paging, failing wrapped lookups), and every schedule of one or two updates
with one or two lookups at the `verif` yield points, compared with the model step by step.
-/
import BW.Proofs.Memo
import BW.Generated.MemoFacts

namespace BW.Props.C19
open BW.Model.Memo BW.Proofs.Memo BW.Generated

variable {W Q A U K : Type} [DecidableEq K]

/-- Sequential transparency, starting from an empty memoizer. -/
theorem sequential_transparent (E : Env W Q A U K) (hk : KeyDetermines E) (w : W) (ops : List (Op Q U)) :
    Seq.run E { inner := w, cache := fun _ => none } ops = direct E w ops :=
  seq_transparent E hk ops _ (by intro k a h; simp at h)

/-- Regenerated obligation: the key covers every lookup option (D23: Offset used to be missing). -/
theorem options_key_covers : (lookupOptionFields.all fun f => cacheKeyFields.contains f) = true ∧ optionsUUIDFromString = true := by
  decide

/-- Regenerated obligation: the printed form the key hashes names the time bounds by their instants (UTC, nanoseconds).
    Printed in the bound's own zone (the pinned tree; 2a32d54) two instants whose clocks read alike in zones one and two
    seconds east of Greenwich had one key — `KeyDetermines` was false there, and the memoizer answered with the other
    window's result. -/
theorem options_key_names_instants : optionsBoundsAsInstants = true := by decide

/-- Regenerated obligation: every argument of a memoizing method is part of its key (the options either
    as given or, for Exist which takes none, the default ones). -/
theorem arguments_in_key :
    (memoMethods.all fun m => m.2.1.all fun p => m.2.2.contains p) = true := by decide

/-- Regenerated obligation: the operation tags of the memoizing methods are pairwise different and each
    method is tagged with its own name. -/
theorem methods_keyed_apart :
    (memoMethods.all fun m => m.2.2.head? == some ("op:" ++ m.1)) = true ∧ (memoMethods.map (·.1)).Nodup := by decide

/-- Regenerated obligations: the protections of the read and write paths, and shared memoizers. -/
theorem protections_in_place : memoStoresGuarded = true ∧ memoResetsAfter = true ∧ memoSharedPerGraph = true := by decide

/-- The policy the model runs with is the one the theorems are about. -/
theorem policy_is_good : (⟨memoStoresGuarded, memoResetsAfter⟩ : Policy) = good := by decide

/-- Every interleaving, any number of readers and writers. -/
theorem interleaved_transparent (E : Env W Q A U K) (hk : KeyDetermines E) (w : W) (ths : List (Thread Q A U))
    (h0 : ∀ t ∈ ths, NotStarted t) (s : Sys W Q A U K) (h : Reach good E (fresh w ths) s) (hs : s.settled = true) :
    s.cacheCurrent E :=
  BW.Proofs.Memo.interleaved_transparent E hk w ths h0 s h hs

/-- Once every update that was started has returned (or none is past its forwarding), a lookup —
    through any handle, hit or miss — returns the wrapped store's current answer: no later read
    reflects the state before an update that has returned. -/
theorem no_stale_after_write (E : Env W Q A U K) (hk : KeyDetermines E) (w : W) (ths : List (Thread Q A U))
    (h0 : ∀ t ∈ ths, NotStarted t) (s : Sys W Q A U K) (h : Reach good E (fresh w ths) s) (hs : s.settled = true) (q : Q) :
    (match s.cache (E.key q) with | some a => a | none => E.ans s.inner q) = E.ans s.inner q := by
  cases hc : s.cache (E.key q) with
  | none => rfl
  | some a => exact hit_is_current E hk w ths h0 s h hs q a hc

/-! ### Each protection is needed (the wrapped store counts the updates it has seen) -/

def cnt : Env Nat Nat Nat Unit Nat := { ans := fun w _ => w, upd := fun w _ => w + 1, key := fun q => q }
def oneEach : List (Thread Nat Nat Unit) := [.writer () .init, .reader 0 .init]

/-- Without the generation check: the lookup misses and fetches, the update runs to its end, the lookup
    memoizes what it fetched — and every later lookup gets the state before the update. -/
theorem stale_without_generation_check :
    let s := (fresh (K := Nat) 0 oneEach).runSchedule ⟨false, true⟩ cnt [1, 1, 0, 0, 0, 1]
    s.settled = true ∧ s.inner = 1 ∧ s.cache 0 = some 0 := by decide

/-- Without the closing reset: the update resets, the lookup starts (same generation), the update is
    forwarded only after the lookup fetched, the lookup memoizes — stale again. -/
theorem stale_without_closing_reset :
    let s := (fresh (K := Nat) 0 oneEach).runSchedule ⟨true, false⟩ cnt [0, 1, 1, 0, 0, 1]
    s.settled = true ∧ s.inner = 1 ∧ s.cache 0 = some 0 := by decide

/-- With both, the same schedules leave nothing stale (instances of the theorem, as a test). -/
example : ((fresh (K := Nat) 0 oneEach).runSchedule good cnt [1, 1, 0, 0, 0, 1]).cache 0 = none := by decide
example : ((fresh (K := Nat) 0 oneEach).runSchedule good cnt [0, 1, 1, 0, 0, 1]).cache 0 = none := by decide

/-! ### Several handles of one graph -/

/-- Store.Graph hands every caller of one graph the same memoizer (ec2bfc6; the correspondence drives two
    handles). Then any history of look-ups and updates through any number of handles gives, look-up by
    look-up, the answers of the wrapped graph. -/
theorem handles_transparent (E : Env W Q A U K) (hk : KeyDetermines E) (ops : List (HOp Q U)) (w : W) :
    Multi.run true E ⟨w, fun _ _ => none⟩ ops = directH E w ops :=
  multi_transparent E hk ops ⟨w, fun _ _ => none⟩ (by intro k a h; simp at h)

/-- With a memoizer per handle (the code before ec2bfc6) a second handle keeps the answer from before the update. -/
theorem stale_with_private_memoizers :
    Multi.run false cnt ⟨0, fun _ _ => none⟩ [.read 0 7, .write 1 (), .read 0 7] = [0, 0] ∧
    directH cnt 0 [.read 0 7, .write 1 (), .read 0 7] = [0, 1] := by decide

end BW.Props.C19

#print axioms BW.Props.C19.sequential_transparent
#print axioms BW.Props.C19.options_key_covers
#print axioms BW.Props.C19.options_key_names_instants
#print axioms BW.Props.C19.arguments_in_key
#print axioms BW.Props.C19.methods_keyed_apart
#print axioms BW.Props.C19.protections_in_place
#print axioms BW.Props.C19.policy_is_good
#print axioms BW.Props.C19.interleaved_transparent
#print axioms BW.Props.C19.no_stale_after_write
#print axioms BW.Props.C19.stale_without_generation_check
#print axioms BW.Props.C19.stale_without_closing_reset
#print axioms BW.Props.C19.handles_transparent
#print axioms BW.Props.C19.stale_with_private_memoizers
