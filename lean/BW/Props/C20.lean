/-
C20 — Storage driver failures surface as errors: never success, hang or leak.

PROVED on the error-flow model (BW/Model/ErrFlow.lean):
  * `error_surfaces`   — in a plan that throws no result away, the statement reports an error exactly
                         when one of the driver calls it made failed (for every composition of `seq` and
                         `par`, every failing set);
  * `dropped_error_is_lost` — with a thrown-away result a failing call goes unreported (D27/D28 shape);
  * `no_error_discarded`   — regenerated obligation: at every place where the planner or Statement.Init
                         calls a driver method, or a planner function that reaches one, the returned error
                         is returned, kept in a variable that is read again, or sent on a channel
                         (`BW.Generated.errSites`, extracted from the source on every run);
  * the goroutine life-cycle theorems of C08 (`no_goroutine_left_*`) for the hand-overs a failing read or
    write goes through: a failing lookup still closes its channel (driver contract), the relay loop runs
    to the end, the row builder drains, the CONSTRUCT writer is closed and awaited.
NOT provable on a model: that the Go code at each site really implements `seq`/`par` (e.g. returns the
variable that holds the error — D27 returned another one), bounded time and goroutine accounting at
run time.  Tie: the `faults` runs — for every statement of a generated corpus the driver calls of a
fault-free run are counted, then each call position is failed in turn (before any element, after 1 and
after 3 elements, on writes) through a wrapper around the memory driver; the statement must report an
error, return within the watchdog, and leave no goroutine.  — partial.
-/
import BW.Model.ErrFlow
import BW.Generated.ErrFacts
import BW.Props.C08
import BW.Generated.ParFacts

namespace BW.Props.C20
open BW.Model.ErrFlow BW.Generated

/-- A plan that throws nothing away reports an error iff some driver call it made failed. -/
theorem error_surfaces (fails : Nat → Bool) (p : Plan) (h : noDrop p = true) :
    (run fails p).1 = true ↔ ∃ i ∈ (run fails p).2, fails i = true := by
  induction p with
  | skip => simp [run]
  | call i => simp [run]
  | seq a b iha ihb =>
    simp only [noDrop, Bool.and_eq_true] at h
    have ha := iha h.1
    have hb := ihb h.2
    simp only [run]
    by_cases hra : (run fails a).1 = true
    · simp only [hra, if_true, true_iff]
      exact ha.mp hra
    · simp only [hra, Bool.false_eq_true, if_false, List.mem_append]
      constructor
      · intro hrb
        obtain ⟨i, hi, hf⟩ := hb.mp hrb
        exact ⟨i, Or.inr hi, hf⟩
      · rintro ⟨i, hi | hi, hf⟩
        · exact absurd (ha.mpr ⟨i, hi, hf⟩) hra
        · exact hb.mpr ⟨i, hi, hf⟩
  | par a b iha ihb =>
    simp only [noDrop, Bool.and_eq_true] at h
    have ha := iha h.1
    have hb := ihb h.2
    simp only [run, Bool.or_eq_true, List.mem_append]
    constructor
    · rintro (h1 | h1)
      · obtain ⟨i, hi, hf⟩ := ha.mp h1; exact ⟨i, Or.inl hi, hf⟩
      · obtain ⟨i, hi, hf⟩ := hb.mp h1; exact ⟨i, Or.inr hi, hf⟩
    · rintro ⟨i, hi | hi, hf⟩
      · exact Or.inl (ha.mpr ⟨i, hi, hf⟩)
      · exact Or.inr (hb.mpr ⟨i, hi, hf⟩)
  | drop p _ => simp [noDrop] at h

/-- In particular: a failing call that was made is never answered with success. -/
theorem never_success_on_failure (fails : Nat → Bool) (p : Plan) (h : noDrop p = true) (i : Nat)
    (hi : i ∈ (run fails p).2) (hf : fails i = true) : (run fails p).1 = true :=
  (error_surfaces fails p h).mpr ⟨i, hi, hf⟩

/-- Throwing a result away loses the error (the shape of D27 and D28). -/
theorem dropped_error_is_lost : ∃ fails p, (∃ i ∈ (run fails p).2, fails i = true) ∧ (run fails p).1 = false :=
  ⟨fun _ => true, .drop (.call 0), ⟨0, by simp [run], rfl⟩, by simp [run]⟩

/-- Regenerated obligation: no site of the planner discards the error of a driver call (or of a planner
    function that reaches one). -/
theorem no_error_discarded : (errSites.all fun s => s.handling != .discarded) = true := by decide

/-- … and the sites are there (the extractor did find the driver calls). -/
theorem sites_found : 25 ≤ errSites.length ∧ (errSites.any fun s => s.callee == "update") = true ∧
    (errSites.any fun s => s.callee == "p.store.GraphNames") = true := by decide

/-- Goroutines on the failure paths: re-export of the life-cycle theorems (a failing lookup is a
    producer that gives up and still closes; a failing row builder is a consumer that loses interest
    and still drains). -/
theorem failing_read_leaves_no_goroutine (n cap want : Nat) (s : BW.Model.Conc.PC)
    (h : BW.Model.Conc.Reach BW.Props.C08.driverRelay (BW.Model.Conc.init n cap want) s) :
    BW.Model.Conc.leaked BW.Props.C08.driverRelay s = false :=
  (BW.Props.C08.driver_relay_no_goroutine_left n cap want s h).1

theorem failing_row_builder_leaves_no_goroutine (n cap want : Nat) (s : BW.Model.Conc.PC)
    (h : BW.Model.Conc.Reach BW.Props.C08.relayRows (BW.Model.Conc.init n cap want) s) :
    BW.Model.Conc.leaked BW.Props.C08.relayRows s = false :=
  (BW.Props.C08.relay_rows_no_goroutine_left n cap want s h).1

theorem failing_construct_leaves_no_goroutine (n cap want : Nat) (s : BW.Model.Conc.PC)
    (h : BW.Model.Conc.Reach BW.Props.C08.constructWriter (BW.Model.Conc.init n cap want) s) :
    BW.Model.Conc.leaked BW.Props.C08.constructWriter s = false :=
  (BW.Props.C08.construct_writer_no_goroutine_left n cap want s h).1

/-! Non-vacuity: INSERT into two graphs (Graph then AddTriples per target, in parallel), second write fails. -/
def insertTwo : Plan := .par (.seq (.call 0) (.call 1)) (.seq (.call 2) (.call 3))
example : noDrop insertTwo = true ∧ (run (fun i => i == 3) insertTwo) = (true, [0, 1, 2, 3]) := by decide

/-- Regenerated obligation (`parfacts`, go/ast): every `Lock()` / `RLock()` of the planner and of the result table
    is released on every path — the unlock is deferred in the next statement, or follows in the same block with
    no return in between. (A per-graph write error is appended under a mutex in `update`: a lock left held there
    blocks the second failing writer and with it the statement.) -/
theorem no_lock_is_left_held : BW.Generated.unbalancedLocks = [] := by decide

end BW.Props.C20

#print axioms BW.Props.C20.error_surfaces
#print axioms BW.Props.C20.never_success_on_failure
#print axioms BW.Props.C20.dropped_error_is_lost
#print axioms BW.Props.C20.no_error_discarded
#print axioms BW.Props.C20.sites_found
#print axioms BW.Props.C20.failing_read_leaves_no_goroutine
#print axioms BW.Props.C20.failing_row_builder_leaves_no_goroutine
#print axioms BW.Props.C20.failing_construct_leaves_no_goroutine
#print axioms BW.Props.C20.no_lock_is_left_held
