/-
C01 — A store is a map from graph names to independent sets of triples.

Model: `BW.Model.Store` (memory.go with its seven indexes, driven by the regenerated facts about which
indexes AddTriples/RemoveTriples/look-ups touch).  Spec: `BW.Spec.Store` (names ↦ duplicate-free sets).
The theorems hold for every finite history of operations (`List Op`), by induction.
-/
import BW.Proofs.StoreRefine
import BW.Proofs.SetSem
import BW.Generated.MemoryFacts

namespace BW.Props.C01
open BW.Model BW.Spec BW.Proofs.Store BW.Proofs.StoreRefine BW.Proofs.SetSem BW.Generated

/-- Regenerated obligation: what memory.go's AST says about index writes, deletes and reads is
    consistent (every bucket read is written by AddTriples and deleted from by RemoveTriples under the
    same key shape, and the key shape is exactly the components the look-up fixes). -/
theorem facts_wf : Facts.WF memoryFacts = true := by decide

/-- Every reachable state satisfies the index invariant: each secondary-index bucket is exactly the
    projection of the master index. -/
theorem inv_reachable (ops : List Op) (hops : ∀ op ∈ ops, Op.ok op) :
    StoreInv memoryFacts (Store.run memoryFacts [] ops).1 :=
  (run_refines facts_wf (s := []) (fun _ h => by cases h) ops hops).2.2

/-- Refinement: after *every* step of every history the memory store has returned exactly what the
    specification (names ↦ sets; look-ups are filtered scans) returns, and holds the corresponding state. -/
theorem store_refines_spec (ops : List Op) (hops : ∀ op ∈ ops, Op.ok op) :
    (Store.run memoryFacts [] ops).2 = (SStore.run [] ops).2 ∧
    abs (Store.run memoryFacts [] ops).1 = (SStore.run [] ops).1 :=
  let h := run_refines facts_wf (s := []) (fun _ h => by cases h) ops hops
  ⟨h.1, h.2.1⟩

/-- Two op lists that lead the specification to the same state are indistinguishable afterwards:
    the store is a function of the set it holds, not of the history. -/
theorem history_independent (ops₁ ops₂ tail : List Op)
    (h₁ : ∀ op ∈ ops₁ ++ tail, Op.ok op) (h₂ : ∀ op ∈ ops₂ ++ tail, Op.ok op)
    (hs : (SStore.run [] ops₁).1 = (SStore.run [] ops₂).1) :
    (Store.run memoryFacts (Store.run memoryFacts [] ops₁).1 tail).2
      = (Store.run memoryFacts (Store.run memoryFacts [] ops₂).1 tail).2 := by
  have a₁ := run_refines facts_wf (s := []) (fun _ h => by cases h) ops₁
    (fun o ho => h₁ o (List.mem_append_left _ ho))
  have a₂ := run_refines facts_wf (s := []) (fun _ h => by cases h) ops₂
    (fun o ho => h₂ o (List.mem_append_left _ ho))
  have b₁ := run_refines facts_wf a₁.2.2 tail (fun o ho => h₁ o (List.mem_append_right _ ho))
  have b₂ := run_refines facts_wf a₂.2.2 tail (fun o ho => h₂ o (List.mem_append_right _ ho))
  rw [b₁.1, b₂.1, a₁.2.1, a₂.2.1]
  simp only [abs, List.map_nil] at hs ⊢
  rw [hs]

/-! #### The sentences of the property, on the specification the store refines -/

/-- After a batch of additions the graph holds exactly the triples held before or added. -/
theorem exist_after_add (g : SGraph) (ts : List TView) (k : TKey) :
    (g.addAll ts).has k = (ts.any (·.key == k) || g.has k) := has_addAll g ts k

/-- After a batch of removals it holds exactly those held before and not removed. -/
theorem exist_after_remove (g : SGraph) (ts : List TView) (k : TKey) :
    (g.remAll ts).has k = (!(ts.any (·.key == k)) && g.has k) := has_remAll g ts k

/-- Each triple at most once, in every reachable graph. -/
theorem at_most_once (g : SGraph) (h : KeysNodup g) (ts us : List TView) :
    KeysNodup ((g.addAll ts).remAll us) := keysNodup_remAll (keysNodup_addAll h ts) us

/-- Re-adding a stored triple succeeds without effect (same elements, each once). -/
theorem readd_noop (g : SGraph) (h : KeysNodup g) (t : TView) (ht : t ∈ g) : (g.add t).Perm g :=
  readd_perm h t ht

/-- Removing an absent triple succeeds without effect. -/
theorem remove_absent_noop (g : SGraph) (t : TView) (h : g.has t.key = false) : g.rem t = g :=
  rem_absent g t h

/-- Creating an existing name fails without effect. -/
theorem create_existing_fails_noop (s : SStore) (n : Bytes) (h : (s.get n).isSome = true) :
    s.step (.newGraph n) = (s, .err) := by
  simp [SStore.step, SStore.newGraph, h]

/-- Getting a missing name fails. -/
theorem get_missing_fails (s : SStore) (n : Bytes) (h : s.get n = none) :
    s.step (.getGraph n) = (s, .err) := by
  simp [SStore.step, h]

/-- Dropping a missing name fails without effect. -/
theorem drop_missing_fails_noop (s : SStore) (n : Bytes) (h : s.get n = none) :
    s.step (.deleteGraph n) = (s, .err) := by
  simp [SStore.step, SStore.deleteGraph, h]

/-- A dropped and re-created graph starts empty. -/
theorem drop_recreate_empty (s s₁ : SStore) (n : Bytes) (h : s.deleteGraph n = some s₁) :
    ∃ s₂, s₁.newGraph n = some s₂ ∧ s₂.get n = some [] := by
  have hd := (get_delete s s₁ n h).1
  refine ⟨(n, []) :: s₁, ?_, ?_⟩
  · simp [SStore.newGraph, hd]
  · simp [SStore.get]

/-- Frame: what happens to one graph does not affect any other graph. -/
theorem other_graphs_untouched (s : SStore) (n n' : Bytes) (f : SGraph → SGraph) (h : n' ≠ n) :
    (s.update n f).get n' = s.get n' := get_update_ne s n n' f h

theorem create_drop_leave_others (s s' : SStore) (n n' : Bytes) (hne : n' ≠ n) :
    (s.newGraph n = some s' → s'.get n' = s.get n') ∧ (s.deleteGraph n = some s' → s'.get n' = s.get n') :=
  ⟨fun h => (get_new s s' n h).2 n' hne, fun h => (get_delete s s' n h).2 n' hne⟩

/-- The listing of names is exactly the names that can be got. -/
theorem names_exact (s : SStore) (n : Bytes) : n ∈ s.names ↔ (s.get n).isSome = true := mem_names_iff s n

/-- Two triples are the same stored triple exactly when subject, predicate identifier,
    kind and (64-bit) instant, and object pre-images agree. (That pre-images agree exactly when the
    values do is C06.) -/
theorem same_triple_iff (t u : TView) :
    t.key = u.key ↔ t.ks = u.ks ∧ t.pid = u.pid ∧ t.pnano.map wrap64 = u.pnano.map wrap64 ∧ t.ko = u.ko := by
  unfold TView.key
  constructor
  · intro h; injection h with h1 h; injection h with h2 h; injection h with h3 h4
    exact ⟨h1, h2, h3, h4⟩
  · rintro ⟨h1, h2, h3, h4⟩; rw [h1, h2, h3, h4]

/-! Non-vacuity: a concrete non-trivial history meets the hypotheses. -/
def exT1 : TView := { ks := [1], pid := [2], pnano := none, ko := [3], str := [1] }
def exT2 : TView := { ks := [1], pid := [2], pnano := some 5, ko := [3], str := [2] }
def exOps : List Op :=
  [.newGraph [7], .add [7] [exT1, exT2, exT1], .rem [7] [exT1],
   .lookup [7] .triplesForS { s := [1] } {}, .exist [7] exT2, .names]
example : ∀ op ∈ exOps, Op.ok op := by
  intro op h
  simp only [exOps, List.mem_cons, List.mem_nil_iff, or_false] at h
  rcases h with rfl | rfl | rfl | rfl | rfl | rfl <;> simp [Op.ok, BW.Proofs.Lookup.argsOK, fixesPred, fixedParts]
example : KeysNodup ([] : SGraph) := keysNodup_nil

end BW.Props.C01

#print axioms BW.Props.C01.facts_wf
#print axioms BW.Props.C01.inv_reachable
#print axioms BW.Props.C01.store_refines_spec
#print axioms BW.Props.C01.history_independent
#print axioms BW.Props.C01.exist_after_add
#print axioms BW.Props.C01.exist_after_remove
#print axioms BW.Props.C01.at_most_once
#print axioms BW.Props.C01.readd_noop
#print axioms BW.Props.C01.remove_absent_noop
#print axioms BW.Props.C01.create_existing_fails_noop
#print axioms BW.Props.C01.get_missing_fails
#print axioms BW.Props.C01.drop_missing_fails_noop
#print axioms BW.Props.C01.drop_recreate_empty
#print axioms BW.Props.C01.other_graphs_untouched
#print axioms BW.Props.C01.create_drop_leave_others
#print axioms BW.Props.C01.names_exact
#print axioms BW.Props.C01.same_triple_iff
