#!/usr/bin/env python3
"""Developer tool: run the query correspondence for one mode/seed and categorise disagreements."""
import os, subprocess, sys
from collections import Counter
mode = sys.argv[1] if len(sys.argv) > 1 else "plain"
n = sys.argv[2] if len(sys.argv) > 2 else "200"
seed = sys.argv[3] if len(sys.argv) > 3 else "1"
show = int(sys.argv[4]) if len(sys.argv) > 4 else 2
env = dict(os.environ, GOFLAGS="-mod=mod", GOPROXY="off", VERIF_SEED=seed)
subprocess.run(["go", "build", "-tags", "verif", "-o", "/tmp/bwh", "."], cwd="/verif/harness", env=env, check=True)
d = "/tmp/st"; os.makedirs(d, exist_ok=True)
out = subprocess.run(["/tmp/bwh", "query", "-mode", mode, "-n", n, "-per", "10", "-ops", f"{d}/q.ops", "-impl", f"{d}/q.impl"], env=env, capture_output=True, text=True)
print(out.stdout.strip().replace("\n", " | "), out.stderr[-300:])
drv = "/verif/lean/.lake/build/bin/bwdriver"
for m in ("model", "spec"):
    subprocess.run([drv, "query", m], stdin=open(f"{d}/q.ops"), stdout=open(f"{d}/q.{m}", "w"), check=True)
rd = lambda p: open(p).read().split("\n")
ops, impl, model, spec = rd(f"{d}/q.ops"), rd(f"{d}/q.impl"), rd(f"{d}/q.model"), rd(f"{d}/q.spec")
import re
def rows(x, instants=False):
    r = x.split("rows=", 1)[1] if "rows=" in x else ""
    if instants:  # the same instant in another zone is the same value
        r = re.sub(r"(\bT,-?\d+),-?\d+", r"\1", r)
        r = re.sub(r"(\bPT,[0-9a-f-]+,-?\d+),-?\d+", r"\1", r)
    return sorted(r.split(";")) if r else []
def cols(x):
    return x.split("cols=", 1)[1].split(" ")[0] if "cols=" in x else ""
from collections import Counter as C
def submulti(a, b):
    ca, cb = C(a), C(b)
    return all(ca[k] <= cb[k] for k in ca)
def kinds_mixed(o, s):
    """ORDER BY is only specified for key columns holding one kind of value: returns True when some key
    column of the (unlimited) reference result mixes kinds."""
    ob = [w for w in o.split() if w.startswith("ob=")][0][3:]
    if ob == "-":
        return False
    keys = [k.split(":")[0] for k in ob.split(",")]
    s2 = s.split(" ", 1)[1] if s.startswith("limit=") else s
    cs = cols(s2).split(",")
    for k in keys:
        if k not in cs:
            continue
        i = cs.index(k)
        ks = set()
        for r in rows(s2):
            c = r.split("|")[i]
            p = c.split(",")[0]
            ks.add("P" if p in ("PI", "PT") else p)
        if len(ks) > 1:
            return True
    return False
def interval_clause(o):
    c = [w for w in o.split() if w.startswith("c=")][0][2:]
    for cl in c.split(";"):
        f = cl.split("|")
        if len(f) == 31 and ((f[7] != "-" and f[11] == "-") or (f[21] != "-" and f[24] == "-")):
            return True
    return False
cat = Counter(); ex = {}
nq = 0
for o, a, m, s in zip(ops, impl, model, spec):
    if not o.startswith("Q"):
        continue
    nq += 1
    text = bytes.fromhex(o.split("text=")[1].split()[0]).decode()
    lim = "lim=-" not in o
    ordered = " ob=-" not in o
    if ordered and s != "unsupported" and s.startswith(("ok", "limit=")) and kinds_mixed(o, s):
        ordered = False
        a = a.split("rows=")[0] + "rows=" + ";".join(sorted(rows(a))) if a.startswith("ok") else a
        m = m.split("rows=")[0] + "rows=" + ";".join(sorted(rows(m))) if m.startswith("ok") else m
        s = s.split("rows=")[0] + "rows=" + ";".join(sorted(rows(s)))
    # model vs impl
    if m == "unsupported":
        cat["unsupported"] += 1
    elif lim and not ordered and a.startswith("ok") and m.startswith("ok"):
        if not (cols(a) == cols(m) and len(rows(a)) == len(rows(m))):
            cat["MODEL limit-count"] += 1; ex.setdefault("MODEL limit-count", []).append((text, a, m))
    elif a != m:
        cat["MODEL"] += 1; ex.setdefault("MODEL", []).append((text, a, m))
    # spec vs impl
    if s == "unsupported":
        continue
    if s.startswith("limit="):
        nlim = int(s.split()[0].split("=")[1]); s2 = s.split(" ", 1)[1]
        if not a.startswith("ok"):
            k = "SPEC impl-" + a.split()[0]
        elif cols(a) != cols(s2): k = "SPEC cols"
        elif len(rows(a, True)) != min(nlim, len(rows(s2, True))): k = "SPEC limit-count"
        elif not ordered and not submulti(rows(a, True), rows(s2, True)): k = "SPEC limit-rows-not-solutions"
        else: continue
    else:
        if a == s or (a.startswith('ok') and cols(a) == cols(s) and rows(a, True) == rows(s, True)): continue
        setcmp = "overlap=1" in o or interval_clause(o)
        if setcmp and a.startswith("ok") and cols(a) == cols(s) and set(rows(a, True)) == set(rows(s, True)): continue
        if not a.startswith("ok"): k = "SPEC impl-" + a.split()[0]
        elif cols(a) != cols(s): k = "SPEC cols"
        elif set(rows(a, True)) == set(rows(s, True)): k = "SPEC multiplicity " + o.split()[1]
        elif set(rows(a, True)) < set(rows(s, True)): k = "SPEC impl-missing " + o.split()[1]
        elif set(rows(a, True)) > set(rows(s, True)): k = "SPEC impl-extra " + o.split()[1]
        else: k = "SPEC different"
    cat[k] += 1; ex.setdefault(k, []).append((text, a, s))
print("queries", nq, dict(cat))
for k, v in ex.items():
    print("==", k)
    for t, a, s in v[:show]:
        print("  ", t); print("      impl ", a[:160]); print("      other", s[:160])
