#!/bin/bash
# usage: seedsave.sh <Cxx> <name> <checks...> : copy /tmp/seed/Cxx/OUT into seeded/<name>, confirm, run the checks
id=$1; name=$2; shift 2
mkdir -p /verif/seeded/$name
cp /tmp/seed/$id/OUT/patch.diff /tmp/seed/$id/OUT/meta.json /tmp/seed/$id/OUT/RUN.md /verif/seeded/$name/ 2>/dev/null
rm -rf /verif/seeded/$name/demo; cp -r /tmp/seed/$id/OUT/demo /verif/seeded/$name/ 2>/dev/null
bash /verif/tools/seedtest.sh /tmp/seed/$id /verif/seeded/$name "$@" 2>&1 | tail -8
