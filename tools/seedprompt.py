#!/usr/bin/env python3
"""usage: seedprompt.py <root> <Cxx> [hint...] — scratch worktree <root>/<Cxx> of /repo's HEAD, the property text and the
prompt for a fresh sub-agent that is to produce a breaking change (it is told what earlier rounds already tried)."""
import glob, json, os, subprocess, sys

root, pid = sys.argv[1], sys.argv[2]
hint = " ".join(sys.argv[3:])
wt = f"{root}/{pid}"
os.makedirs(root, exist_ok=True)
if not os.path.isdir(wt):
    subprocess.check_call(["git", "-C", "/repo", "worktree", "add", "--detach", wt, "HEAD"], stdout=subprocess.DEVNULL)
prop = next(json.loads(l) for l in open("/verif/properties.jsonl") if json.loads(l)["id"] == pid)
open(f"{root}/{pid}.property.txt", "w").write(json.dumps(prop, indent=1, ensure_ascii=False) + "\n")
tried = []
for m in sorted(glob.glob(f"/verif/seeded/{pid}-*/meta.json")):
    tried.append("- " + json.load(open(m)).get("summary", "")[:260])
T = f"""You are helping test a verification tool by producing a realistic *defect injection* for a Go project (google/badwolf, a temporal graph store with a query language called BQL). Work ONLY inside the scratch git worktree `{wt}` (a checkout of the project; do not touch `/repo` or `/verif`, do not read anything under `/verif`).

The property that your change must break is in `{root}/{pid}.property.txt` — read it first.

Task: make ONE small, realistic source change to the Go code in `{wt}` (the kind of bug a developer could plausibly introduce: an off-by-one, a wrong map key, a missing case, a swapped argument, a wrong comparison, a lost error, a forgotten reset or unlock...) such that:
1. the project still compiles: `cd {wt} && GOFLAGS=-mod=mod GOPROXY=off go build ./...`
2. the existing test suite still passes completely: `cd {wt} && GOFLAGS=-mod=mod GOPROXY=off go test -vet=off -count=1 ./...` (no network is available; do not try to download anything; do NOT edit or delete existing tests);
3. the property is violated, but NOT in a way ordinary use would expose at once: it should need something specific to manifest — a multi-step sequence of statements or operations, an unusual but legal input, a particular combination of clauses or values, a particular interleaving, or two cooperating sites that each look fine alone.

Then write a demonstration: a small Go test file or a small `main` program (put it under `{wt}/OUT/demo/` with its own go.mod using `replace github.com/google/badwolf => {wt}` and a copy of {wt}/go.sum) that FAILS (non-zero exit / test failure) with your change and PASSES on the unchanged code. Verify both: run it with your change, then `git diff > {wt}/OUT/patch.diff; git checkout -- .` (only tracked source files), run it on the unchanged code, then re-apply your change with `git apply OUT/patch.diff`.

Deliverables, all under `{wt}/OUT/`:
- `patch.diff` — output of `git diff` for your source change only (no demo files, nothing under OUT/);
- the demonstration (file(s)) and `RUN.md` with the exact commands to run it and the observed outputs with and without the patch;
- `meta.json` with keys: `property` ("{pid}"), `summary` (one sentence: what the change does), `needs` (what specific condition is needed for the violation to manifest), `files_changed`.

Constraints: Go toolchain is available offline (use `GOFLAGS=-mod=mod GOPROXY=off`; never set GOSUMDB=off or GOTOOLCHAIN=local). Keep the change small (a few lines). Do not make a change that breaks compilation or any existing test. Do not touch files whose name starts with `hooks_` (verification hooks). When finished, leave the worktree with your patch applied, and reply with a short summary (what you changed, how it manifests, confirmation that build+tests pass and the demo fails/passes as required).
"""
if tried:
    T += "\n\nImportant: earlier attempts already used the following ideas — do something DIFFERENT (another function, another mechanism, another part of the property):\n" + "\n".join(tried) + "\n"
if hint:
    T += "\n" + hint + "\n"
open(f"{root}/{pid}.prompt.txt", "w").write(T)
print(f"{root}/{pid}.prompt.txt", len(tried), "earlier ideas")
