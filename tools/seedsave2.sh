#!/bin/bash
# usage: seedsave2.sh <scratch root> <Cxx> <name> <checks...> : copy <root>/Cxx/OUT into seeded/<name>, confirm, run the checks
root=$1; id=$2; name=$3; shift 3
mkdir -p /verif/seeded/$name
cp $root/$id/OUT/patch.diff $root/$id/OUT/meta.json $root/$id/OUT/RUN.md /verif/seeded/$name/ 2>/dev/null
rm -rf /verif/seeded/$name/demo; cp -r $root/$id/OUT/demo /verif/seeded/$name/ 2>/dev/null
bash /verif/tools/seedtest.sh $root/$id /verif/seeded/$name "$@" 2>&1 | tail -8
