#!/usr/bin/env python3
"""Register a check in MANIFEST.json (moves the property out of not_applicable)."""
import json, sys
pid, text, note, tech = sys.argv[1:5]
m = json.load(open('/verif/MANIFEST.json'))
m['checks'] = [c for c in m['checks'] if c['property_id'] != pid]
m['checks'].append({
    "property_id": pid, "quick_cmd": f"./check {pid} --tier quick", "thorough_cmd": f"./check {pid} --tier thorough",
    "evidence_file": f"evidence/{pid}.json", "replay_cmd_template": f"./check {pid} --replay {{path}}",
    "engine": "lean-proof+correspondence",
    "level_claimed": {"category": "proof", "text": text, "design_ref": f"DESIGN.md §5 {pid}"},
    "level_note": note, "technique": tech})
m['checks'].sort(key=lambda c: c['property_id'])
m['not_applicable'] = [x for x in m.get('not_applicable', []) if x['property_id'] != pid]
for e in m.get('engines', []):
    if pid not in e['serves_properties']:
        e['serves_properties'] = sorted(e['serves_properties'] + [pid])
json.dump(m, open('/verif/MANIFEST.json', 'w'), indent=1)
