#!/bin/bash
# usage: seedtest.sh <scratch worktree> <seeded dir under /verif/seeded> <check ids...>
# 1. confirms in the scratch worktree: with the patch the project builds, the suite passes, the demo fails;
#    without the patch the demo passes.  2. applies the patch to /repo, runs the given checks, reverts.
set -u
WT=$1; SD=$2; shift 2
export GOFLAGS=-mod=mod GOPROXY=off
cd "$WT" || exit 2
git checkout -q -- . 2>/dev/null
git apply "$SD/patch.diff" || { echo "patch does not apply in worktree"; exit 2; }
go build ./... || { echo "BUILD FAILS with patch"; exit 2; }
if go test -vet=off -count=1 ./... 2>&1 | grep -q "^FAIL\|^--- FAIL"; then echo "SUITE FAILS with patch"; exit 2; fi
echo "with patch: build ok, suite ok"
if [ -d "$WT/OUT/demo" ]; then
  rundemo() { if ls "$WT"/OUT/demo/*_test.go >/dev/null 2>&1; then (cd "$WT/OUT/demo" && go test -count=1 ./... >"$1" 2>&1); else (cd "$WT/OUT/demo" && go run . >"$1" 2>&1); fi; }
  cp "$WT/go.sum" "$WT/OUT/demo/" 2>/dev/null
  rundemo /tmp/seed_demo_with.log; echo "demo with patch: exit $? (expected non-zero)"
  git checkout -q -- .
  rundemo /tmp/seed_demo_without.log; echo "demo without patch: exit $? (expected 0)"
  git apply "$SD/patch.diff"
fi
cd /repo && git apply "$SD/patch.diff" || { echo "patch does not apply on /repo"; exit 2; }
for c in "$@"; do
  out=$(cd /verif && ./check "$c" 2>&1 | grep "^VIOLATION\|^KNOWN" | cut -c1-160)
  echo "check $c: ${out:-no violation reported}"
done
git -C /repo checkout -q -- .
git -C /repo status --short | head -3
